/-
  Model of the two decoding paths for character references and backslash escapes.

    path A (inline text)        `src/plugins/cmark/inline/entity.rs`  (`EntityScanner`, `DIGITAL_RE`, `NAMED_RE`)
                                `src/plugins/cmark/inline/escape.rs`  (`EscapeScanner`)
                                `src/parser/inline/builtin/skip_text.rs` (`TextScanner`, `SkipPunct` arm)
                                `src/parser/inline/mod.rs`            (`InlineParser::tokenize`, just the loop)
    path B (attribute contexts) `src/common/utils.rs` (`unescape_all`, `replace_entity_pattern`,
                                `is_valid_entity_code`, `UNESCAPE_MD_RE`, `ENTITY_RE`, `DIGITAL_ENTITY_TEST_RE`)

  Text is `List Char` (Unicode scalar values).  Lengths and positions are counted in CHARACTERS; the
  Rust counts UTF-8 bytes of the same characters (`utf8Len`).  Everything a reference or an escape
  marker is made of is ASCII, so the two coincide except for the escaped character itself
  (`\é` : 2 characters, 3 bytes).

  The entity table is a parameter `lookup : List Char → Option (List Char)` (= `get_entity_from_str`);
  `lookupIn table` is the instance over a `(name, characters)` code-point table such as `Gen.Entities.table`.

  Every regular expression is modelled by a hand matcher for the EXACT pattern string quoted beside it.
  Every Rust operation that can panic is partial here (`Panic`); `Props/C12.lean` proves that none fires.
-/
namespace MdIt.Entity

inductive Panic where
  | unwrapNone   -- `chars.next().unwrap()` on an empty window (`pos >= pos_max`)
  | slice        -- `src[a..b]` out of range
  | radix        -- `u32::from_str_radix(..).unwrap()` on `Err`
  | fromU32      -- `char::from_u32(code).unwrap()` on `None`
  | fuel         -- a rule returned `Some(0)`: the Rust loop would not advance
  deriving Repr, DecidableEq

/-! ## character classes (all ASCII ranges, as the regex classes / `match` arms spell them) -/

/-- `[0-9]` -/
def isDigit (c : Char) : Bool := 48 ≤ c.toNat && c.toNat ≤ 57
/-- `[A-Za-z]` -/
def isAlpha (c : Char) : Bool := (65 ≤ c.toNat && c.toNat ≤ 90) || (97 ≤ c.toNat && c.toNat ≤ 122)
/-- `[A-Za-z0-9]` -/
def isAlnum (c : Char) : Bool := isAlpha c || isDigit c
/-- `(?i)[a-f0-9]` — no non-ASCII character case-folds to `a`..`f` -/
def isHexDigit (c : Char) : Bool :=
  isDigit c || (65 ≤ c.toNat && c.toNat ≤ 70) || (97 ≤ c.toNat && c.toNat ≤ 102)
/-- `(?i)x` — `x`, `X` (no non-ASCII character case-folds to `x`) -/
def isX (c : Char) : Bool := c == 'x' || c == 'X'
/-- `(?i)[a-z]` in the `regex` crate (Unicode mode is on by default): simple case folding adds
    U+017F LATIN SMALL LETTER LONG S (folds to `s`) and U+212A KELVIN SIGN (folds to `k`). -/
def isAlphaI (c : Char) : Bool := isAlpha c || c.toNat == 0x17F || c.toNat == 0x212A
/-- `(?i)[a-z0-9]` -/
def isAlnumI (c : Char) : Bool := isAlphaI c || isDigit c

/-- the 32 ASCII punctuation characters `!`..`/`, `:`..`@`, `[`..`` ` ``, `{`..`~` -/
def isAsciiPunctN (n : Nat) : Bool :=
  (33 ≤ n && n ≤ 47) || (58 ≤ n && n ≤ 64) || (91 ≤ n && n ≤ 96) || (123 ≤ n && n ≤ 126)
def isAsciiPunct (c : Char) : Bool := isAsciiPunctN c.toNat

/-- the `match chr` arm of `EscapeScanner::run`, in source order -/
def escapable : List Char :=
  ['\\', '!', '"', '#', '$', '%', '&', '\'', '(', ')',
   '*', '+', ',', '.', '/', ':', ';', '<', '=', '>', '?',
   '@', '[', ']', '^', '_', '`', '{', '|', '}', '~', '-']

/-- the character class of `UNESCAPE_MD_RE`
    ``\\([!"#$%&'()*+,\-./:;<=>?@\[\\\]^_`{|}~])``, in pattern order -/
def unescapeClass : List Char :=
  ['!', '"', '#', '$', '%', '&', '\'', '(', ')', '*', '+', ',', '-', '.', '/',
   ':', ';', '<', '=', '>', '?', '@', '[', '\\', ']', '^', '_', '`', '{', '|', '}', '~']

/-- the stop set of `TextScannerImpl::SkipPunct` (same arm repeated in `choose_text_impl`), in source order -/
def textStop : List Char :=
  ['\n', '!', '#', '$', '%', '&', '*', '+', '-',
   ':', '<', '=', '>', '@', '[', '\\', ']', '^',
   '_', '`', '{', '}', '~']

/-- `str::len` of the text: number of UTF-8 bytes -/
def utf8Len (s : List Char) : Nat := s.foldl (fun n c => n + c.utf8Size) 0

/-! ## `is_valid_entity_code` -/

def isValidEntityCode (code : Nat) : Bool :=
  -- broken sequence
  if code ≥ 0xD800 && code ≤ 0xDFFF then false
  -- never used
  else if code ≥ 0xFDD0 && code ≤ 0xFDEF then false
  else if (code &&& 0xFFFF) == 0xFFFF || (code &&& 0xFFFF) == 0xFFFE then false
  -- control codes
  else if code ≤ 0x08 then false
  else if code == 0x0B then false
  else if code ≥ 0x0E && code ≤ 0x1F then false
  else if code ≥ 0x7F && code ≤ 0x9F then false
  -- out of range
  else if code > 0x10FFFF then false
  else true

/-! ## numeric parse: `u32::from_str_radix`, `char::from_u32` -/

/-- `char::to_digit(radix)` for `radix ≤ 16` -/
def digitVal? (radix : Nat) (c : Char) : Option Nat :=
  let n := c.toNat
  let d : Option Nat :=
    if 48 ≤ n && n ≤ 57 then some (n - 48)
    else if 97 ≤ n && n ≤ 102 then some (n - 87)
    else if 65 ≤ n && n ≤ 70 then some (n - 55)
    else none
  match d with
  | some v => if v < radix then some v else none
  | none => none

/-- the digit loop of `from_str_radix`: invalid digit or overflow of `u32` is `Err` -/
def parseU32Loop (radix : Nat) : Nat → List Char → Option Nat
  | acc, [] => some acc
  | acc, c :: r =>
    match digitVal? radix c with
    | none => none
    | some d =>
      let acc' := acc * radix + d
      if acc' < 4294967296 then parseU32Loop radix acc' r else none

/-- `u32::from_str_radix(s, radix)`: `Err` on the empty string, on a lone sign, on any non-digit, on
    overflow; a single leading `+` is accepted (std behaviour; the callers never pass one) -/
def parseU32 (radix : Nat) (s : List Char) : Option Nat :=
  match s with
  | [] => none
  | ['+'] => none
  | '+' :: r => parseU32Loop radix 0 r
  | s => parseU32Loop radix 0 s

/-- `char::from_u32` -/
def charFromU32 (n : Nat) : Option Char :=
  if h : n.isValidChar then some (Char.ofNatAux n h) else none

def replacementChar : Char := Char.ofNat 0xFFFD

/-- The block shared (textually identical) by `parse_digital_entity` and `replace_entity_pattern`:
    `entity` is capture 1, i.e. `x41` / `X41` / `65`.
    ```
    let code = if entity.starts_with('x') || entity.starts_with('X') {
        u32::from_str_radix(&entity[1..], 16).unwrap()
    } else { u32::from_str_radix(entity, 10).unwrap() };
    if is_valid_entity_code(code) { char::from_u32(code).unwrap().into() } else { '\u{FFFD}'.into() }
    ``` -/
def decodeEntityE (entity : List Char) : Except Panic (List Char) :=
  let code? : Option Nat :=
    match entity with
    | [] => parseU32 10 []
    | c :: r => if isX c then parseU32 16 r else parseU32 10 (c :: r)
  match code? with
  | none => .error .radix
  | some code =>
    if isValidEntityCode code then
      match charFromU32 code with
      | some ch => .ok [ch]
      | none => .error .fromU32
    else .ok [replacementChar]

/-- value of a digit, total (0 on a non-digit; never used on one) -/
def digitVal (c : Char) : Nat :=
  let n := c.toNat
  if 48 ≤ n && n ≤ 57 then n - 48
  else if 97 ≤ n && n ≤ 102 then n - 87
  else if 65 ≤ n && n ≤ 70 then n - 55
  else 0

/-- positional value of a digit string, total -/
def digitsVal (radix : Nat) (s : List Char) : Nat := s.foldl (fun acc c => acc * radix + digitVal c) 0

/-- the code point a capture `x41` / `X41` / `65` denotes -/
def entityCode : List Char → Nat
  | [] => 0
  | c :: r => if isX c then digitsVal 16 r else digitsVal 10 (c :: r)

/-- what a numeric reference with code `code` denotes -/
def codeToChars (code : Nat) : List Char :=
  if isValidEntityCode code then [Char.ofNat code] else [replacementChar]

/-- total specification of `decodeEntityE` (equal on every capture the matchers produce:
    `numeric_parse_total`) -/
def decodeEntity (entity : List Char) : List Char := codeToChars (entityCode entity)

/-! ## regex building blocks -/

/-- longest prefix of characters in `p`, and what follows -/
def splitRun (p : Char → Bool) : List Char → List Char × List Char
  | [] => ([], [])
  | c :: r => if p c then ((c :: (splitRun p r).1), (splitRun p r).2) else ([], c :: r)

/-- `[p]{1,max};` at the start of `s` (greedy bounded repetition followed by a literal `;`):
    the run and what follows the `;`.

    The regex engine would try `max, max-1, …, 1` repetitions, each time requiring `;` next.  For every
    class used here `;` is not in the class, so after `j` repetitions the next character is `;` only if
    the run of class characters ends exactly there: the pattern matches iff the MAXIMAL run has length
    `1..max` and is followed by `;`.  In particular a run longer than `max` cannot match by backtracking
    (`&` + 33 letters + `;` is no reference). -/
def runThenSemi (p : Char → Bool) (max : Nat) (s : List Char) : Option (List Char × List Char) :=
  let run := (splitRun p s).1
  if 1 ≤ run.length && run.length ≤ max then
    match (splitRun p s).2 with
    | ';' :: rest => some (run, rest)
    | _ => none
  else none

/-- `(x[a-f0-9]{1,6}|[0-9]{1,7});` under `(?i)`, at the start of `s`: capture and what follows `;`.
    The alternatives start with different characters, so leftmost-first choice never matters. -/
def matchDigitalBody : List Char → Option (List Char × List Char)
  | [] => none
  | c :: s =>
    if isX c then
      match runThenSemi isHexDigit 6 s with
      | some (run, rest) => some (c :: run, rest)
      | none => none
    else runThenSemi isDigit 7 (c :: s)

/-- `DIGITAL_RE` = `(?i)^&#((?:x[a-f0-9]{1,6}|[0-9]{1,7}));` on `s`: (capture 1, rest after the match) -/
def matchDigitalRe : List Char → Option (List Char × List Char)
  | '&' :: '#' :: s => matchDigitalBody s
  | _ => none

/-- `DIGITAL_ENTITY_TEST_RE` = `(?i)^&#(x[a-f0-9]{1,6}|[0-9]{1,7});$` on `s`: capture 1.
    (`$` without the `m` flag is the end of the haystack only.) -/
def matchDigitalTestRe (s : List Char) : Option (List Char) :=
  match matchDigitalRe s with
  | some (cap, []) => some cap
  | _ => none

/-- `NAMED_RE` = `(?i)^&([a-z][a-z0-9]{1,31});` on `s`: (capture 0, rest after the match) -/
def matchNamedRe : List Char → Option (List Char × List Char)
  | '&' :: c :: s =>
    if isAlphaI c then
      match runThenSemi isAlnumI 31 s with
      | some (run, rest) => some ('&' :: c :: (run ++ [';']), rest)
      | none => none
    else none
  | _ => none

/-- `ENTITY_RE` = `&([A-Za-z#][A-Za-z0-9]{1,31});` at the start of `s`: (capture 0, rest) -/
def matchEntityRe : List Char → Option (List Char × List Char)
  | '&' :: c :: s =>
    if isAlpha c || c == '#' then
      match runThenSemi isAlnum 31 s with
      | some (run, rest) => some ('&' :: c :: (run ++ [';']), rest)
      | none => none
    else none
  | _ => none

/-- `UNESCAPE_MD_RE` at the start of `s`: the escaped character (capture 1) -/
def matchEscapeRe : List Char → Option Char
  | '\\' :: c :: _ => if unescapeClass.contains c then some c else none
  | _ => none

/-! ## path B: `replace_entity_pattern`, `unescape_all` -/

/-- `replace_entity_pattern(str)` -/
def replaceEntityPatternE (lookup : List Char → Option (List Char)) (str : List Char) :
    Except Panic (Option (List Char)) :=
  match lookup str with
  | some entity => .ok (some entity)
  | none =>
    match matchDigitalTestRe str with
    | some cap =>
      match decodeEntityE cap with
      | .ok cs => .ok (some cs)
      | .error e => .error e
    | none => .ok none

def replaceEntityPattern (lookup : List Char → Option (List Char)) (str : List Char) :
    Option (List Char) :=
  match lookup str with
  | some entity => some entity
  | none =>
    match matchDigitalTestRe str with
    | some cap => some (decodeEntity cap)
    | none => none

/-- one match of `UNESCAPE_ALL_RE` = `UNESCAPE_MD_RE|ENTITY_RE` starting with the character before
    `tail`: `group1` is the first alternative's capture -/
structure ReMatch where
  whole : List Char
  group1 : Option Char
  deriving Repr, DecidableEq

/-- `UNESCAPE_ALL_RE` at the start of `s`.  The first alternative starts with `\`, the second with `&`:
    leftmost-first preference between them never matters. -/
def matchUnescapeAllRe (s : List Char) : Option ReMatch :=
  match matchEscapeRe s with
  | some c => some ⟨['\\', c], some c⟩
  | none =>
    match matchEntityRe s with
    | some (whole, _) => some ⟨whole, none⟩
    | none => none

/-- the replacement closure of `unescape_all` -/
def replacementE (lookup : List Char → Option (List Char)) (m : ReMatch) : Except Panic (List Char) :=
  match m.group1 with
  | some c => .ok [c]
  | none =>
    match replaceEntityPatternE lookup m.whole with
    | .ok (some r) => .ok r
    | .ok none => .ok m.whole
    | .error e => .error e

def replacement (lookup : List Char → Option (List Char)) (m : ReMatch) : List Char :=
  match m.group1 with
  | some c => [c]
  | none =>
    match replaceEntityPattern lookup m.whole with
    | some r => r
    | none => m.whole

/-- `Regex::replace_all` as a left-to-right scan: `skip` characters of the current match are still to
    be passed over; otherwise try a match here (leftmost), emit its replacement and resume after it
    (non-overlapping); on no match copy one character.
    (`m.whole` is a prefix `c :: t`, `t ≠ []`, of the input — `matchUnescapeAllRe_prefix` in
    `Props/C12.lean` — so `m.whole.length - 1` never truncates.)
    The early return of `unescape_all` for strings without `\` and `&` is in `unescapeAllE`. -/
def unescapeScanE (lookup : List Char → Option (List Char)) : Nat → List Char → Except Panic (List Char)
  | _, [] => .ok []
  | skip + 1, _ :: r => unescapeScanE lookup skip r
  | 0, c :: r =>
    match matchUnescapeAllRe (c :: r) with
    | none =>
      match unescapeScanE lookup 0 r with
      | .ok out => .ok (c :: out)
      | .error e => .error e
    | some m =>
      match replacementE lookup m with
      | .error e => .error e
      | .ok repl =>
        match unescapeScanE lookup (m.whole.length - 1) r with
        | .ok out => .ok (repl ++ out)
        | .error e => .error e

def unescapeScan (lookup : List Char → Option (List Char)) : Nat → List Char → List Char
  | _, [] => []
  | skip + 1, _ :: r => unescapeScan lookup skip r
  | 0, c :: r =>
    match matchUnescapeAllRe (c :: r) with
    | none => c :: unescapeScan lookup 0 r
    | some m => replacement lookup m ++ unescapeScan lookup (m.whole.length - 1) r

/-- `unescape_all(str)` -/
def unescapeAllE (lookup : List Char → Option (List Char)) (str : List Char) : Except Panic (List Char) :=
  if !str.contains '\\' && !str.contains '&' then .ok str
  else unescapeScanE lookup 0 str

/-- `unescape_all(str)`, total specification (`unescapeAllE_total`) -/
def unescapeAll (lookup : List Char → Option (List Char)) (str : List Char) : List Char :=
  if !str.contains '\\' && !str.contains '&' then str
  else unescapeScan lookup 0 str

/-! ## path A: `EntityScanner`, `EscapeScanner`, `TextScanner` -/

/-- the `TextSpecial` node a rule pushes, with the length it returns -/
structure Special where
  len : Nat
  content : List Char
  markup : List Char
  deriving Repr, DecidableEq

/-- `parse_digital_entity` on `suffix = src[pos..]` (NOT bounded by `pos_max`) -/
def parseDigitalEntity (suffix : List Char) : Except Panic (Option Special) :=
  match matchDigitalRe suffix with
  | none => .ok none
  | some (cap, _) =>
    -- capture[0] = "&#" + capture[1] + ";"
    let whole := '&' :: '#' :: (cap ++ [';'])
    match decodeEntityE cap with
    | .error e => .error e
    | .ok content => .ok (some ⟨whole.length, content, whole⟩)

/-- `parse_named_entity` on `suffix = src[pos..]` (NOT bounded by `pos_max`) -/
def parseNamedEntity (lookup : List Char → Option (List Char)) (suffix : List Char) :
    Except Panic (Option Special) :=
  match matchNamedRe suffix with
  | none => .ok none
  | some (whole, _) =>
    match lookup whole with
    | none => .ok none
    | some str => .ok (some ⟨whole.length, str, whole⟩)

/-- `EntityScanner::run`: `window = src[pos..pos_max]` decides the branch, the regexes see
    `suffix = src[pos..]` -/
def entityCore (lookup : List Char → Option (List Char)) (window suffix : List Char) :
    Except Panic (Option Special) :=
  match window with
  | [] => .error .unwrapNone
  | c :: w =>
    if c != '&' then .ok none
    else
      match w with
      | '#' :: _ => parseDigitalEntity suffix
      | _ => parseNamedEntity lookup suffix

inductive EscOut where
  | hardbreak (len : Nat)
  | special (s : Special)
  deriving Repr, DecidableEq

/-- `EscapeScanner::run` on `window = src[pos..pos_max]`; `len` in characters
    (Rust: `1 + chr.len_utf8()` bytes for the same two characters) -/
def escapeCore (window : List Char) : Except Panic (Option EscOut) :=
  match window with
  | [] => .error .unwrapNone
  | c :: w =>
    if c != '\\' then .ok none
    else
      match w with
      | [] => .ok none
      | chr :: w' =>
        if chr == '\n' then
          -- skip leading whitespaces from next line
          .ok (some (.hardbreak (2 + (splitRun (fun x => x == ' ' || x == '\t') w').1.length)))
        else
          let orig := ['\\', chr]
          let content := if escapable.contains chr then [chr] else orig
          .ok (some (.special ⟨2, content, orig⟩))

/-- `&src[a..b]` -/
def slice? (src : List Char) (a b : Nat) : Option (List Char) :=
  if a ≤ b && b ≤ src.length then some ((src.drop a).take (b - a)) else none

/-- `EntityScanner::run` at `state.pos = pos`, `state.pos_max = posMax` (character indices) -/
def entityRule (lookup : List Char → Option (List Char)) (src : List Char) (pos posMax : Nat) :
    Except Panic (Option Special) :=
  match slice? src pos posMax, slice? src pos src.length with
  | some window, some suffix => entityCore lookup window suffix
  | _, _ => .error .slice

/-- `EscapeScanner::run` at `state.pos = pos`, `state.pos_max = posMax` -/
def escapeRule (src : List Char) (pos posMax : Nat) : Except Panic (Option EscOut) :=
  match slice? src pos posMax with
  | some window => escapeCore window
  | none => .error .slice

/-! ## the inline loop (`InlineParser::tokenize`) over an arbitrary rule chain -/

inductive Piece where
  | text (s : List Char)                    -- `trailing_text_push` (adjacent ones merge into one `Text`)
  | special (content markup : List Char)    -- `TextSpecial`
  | hardbreak
  | other (content : List Char)             -- whatever a further rule produces
  deriving Repr, DecidableEq

/-- a rule sees the rest of the input (`pos_max` = end at top level) and answers
    `None` / `Some(len)` + the nodes it pushed -/
abbrev Rule := List Char → Except Panic (Option (Nat × List Piece))

/-- `TextScanner::run`, `SkipPunct` implementation -/
def textRule : Rule := fun s =>
  let run := (splitRun (fun c => !textStop.contains c) s).1
  if run.length == 0 then .ok none else .ok (some (run.length, [.text run]))

def escapeRuleR : Rule := fun s =>
  match escapeCore s with
  | .error e => .error e
  | .ok none => .ok none
  | .ok (some (.hardbreak len)) => .ok (some (len, [.hardbreak]))
  | .ok (some (.special sp)) => .ok (some (sp.len, [.special sp.content sp.markup]))

def entityRuleR (lookup : List Char → Option (List Char)) : Rule := fun s =>
  match entityCore lookup s s with
  | .error e => .error e
  | .ok none => .ok none
  | .ok (some sp) => .ok (some (sp.len, [.special sp.content sp.markup]))

/-- `for rule in ruler.iter() { ok = rule(state, false); if ok.is_some() { break; } }` -/
def firstRule : List Rule → List Char → Except Panic (Option (Nat × List Piece))
  | [], _ => .ok none
  | r :: rs, s =>
    match r s with
    | .error e => .error e
    | .ok (some o) => .ok (some o)
    | .ok none => firstRule rs s

/-- `InlineParser::tokenize` (with `level < max_nesting`): while input remains, the first rule that
    answers `Some(len)` advances by `len`; if none does, one character goes to the pending text.
    `fuel` bounds the number of iterations (a rule answering `Some(0)` would spin in Rust). -/
def inlineLoop (rules : List Rule) : Nat → List Char → Except Panic (List Piece)
  | _, [] => .ok []
  | 0, _ :: _ => .error .fuel
  | fuel + 1, c :: r =>
    match firstRule rules (c :: r) with
    | .error e => .error e
    | .ok (some (len, ps)) =>
      match inlineLoop rules fuel ((c :: r).drop len) with
      | .ok out => .ok (ps ++ out)
      | .error e => .error e
    | .ok none =>
      match inlineLoop rules fuel r with
      | .ok out => .ok (.text [c] :: out)
      | .error e => .error e

def Piece.display : Piece → List Char
  | .text s => s
  | .special content _ => content
  | .hardbreak => ['\n']
  | .other content => content

/-- the characters a piece list shows (what the renderer passes to `fmt.text`, a hard break as `\n`) -/
def display (ps : List Piece) : List Char := ps.flatMap Piece.display

/-- the chain `[text, escape, entity]` on a whole string -/
def tokenizeTEE (lookup : List Char → Option (List Char)) (s : List Char) : Except Panic (List Piece) :=
  inlineLoop [textRule, escapeRuleR, entityRuleR lookup] (s.length + 1) s

/-- prefix `\` to every ASCII punctuation character -/
def escapeAllPunct : List Char → List Char
  | [] => []
  | c :: r => if isAsciiPunct c then '\\' :: c :: escapeAllPunct r else c :: escapeAllPunct r

/-! ## the table instance of `lookup` -/

/-- first row with the given name -/
def lookupNat : List (List Nat × List Nat) → List Nat → Option (List Nat)
  | [], _ => none
  | (k, v) :: t, key => if k == key then some v else lookupNat t key

/-- `get_entity_from_str` over a `(name incl. & and ;, characters)` code-point table -/
def lookupIn (table : List (List Nat × List Nat)) (s : List Char) : Option (List Char) :=
  match lookupNat table (s.map Char.toNat) with
  | some v => some (v.map Char.ofNat)
  | none => none

end MdIt.Entity
