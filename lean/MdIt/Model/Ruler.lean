/-
  Model of `src/common/ruler.rs` (`Ruler::compile`, `add`, `remove`, `contains`, `RuleItem::*`).

  Marks are `Nat`.  `compile phantom rs` follows `Ruler::compile` statement by statement and returns
  `result_idx` (the payload vector `result` is `result_idx.map (deps[·].value)`, not modelled).

  * `phantom = true`  — the pinned tree: the `Before(v)` / `After(v)` arms read the holders through
    `idhash.entry(*v).or_default()`, which CREATES an empty entry for an absent mark; a `Require(v)`
    evaluated later (`deps_order` order, constraint order inside an item) then passes
    `idhash.contains_key(v)` although nothing holds `v`.
  * `phantom = false` — the repaired tree: the arms read `idhash.get(v)` (absent = no holders), the map
    is never changed after the first loop.

  Every Rust operation that can panic is partial here: `Vec::insert` out of range, the `usize`
  subtraction `deps_order.len() - afterall_len`, every `get(..).unwrap()` / `get_mut(..).unwrap()`
  give `CompileErr.internal` (proved unreachable in `Props/C09.lean`: `compile_total`); the two
  intended panics are `missing` and `cyclic`.  `HashSet<usize>` is a duplicate-free `List Nat`
  (only membership and emptiness are observed), `HashMap<M, Vec<usize>>` an association list.
-/
namespace MdIt.Ruler

inductive Cons where
  | before (m : Nat)
  | after (m : Nat)
  | require (m : Nat)
  deriving Repr, DecidableEq

inductive Prio where
  | normal
  | beforeAll
  | afterAll
  deriving Repr, DecidableEq

structure RuleItem where
  marks : List Nat
  prio : Prio
  cons : List Cons
  deriving Repr, DecidableEq

inductive CompileErr where
  /-- `missing dependency: {marks[0]} requires {mark}` -/
  | missing (rule mark : Nat)
  /-- `cyclic dependency: …` (either of the two panics at the end of the outer loop) -/
  | cyclic
  /-- an unintended panic (`unwrap` on `None`, `Vec::insert` out of range, `usize` underflow) -/
  | internal
  deriving Repr, DecidableEq

/-- `for a in l { s = f(s, a)? }` -/
def foldE {σ α ε : Type} (f : σ → α → Except ε σ) : σ → List α → Except ε σ
  | s, [] => .ok s
  | s, a :: l =>
    match f s a with
    | .error e => .error e
    | .ok s' => foldE f s' l

/-! ### `HashMap<M, Vec<usize>>` -/

abbrev IdHash := List (Nat × List Nat)

/-- `idhash.get(&m)` -/
def idGet : IdHash → Nat → Option (List Nat)
  | [], _ => none
  | (k, v) :: t, m => if k = m then some v else idGet t m

/-- `idhash.entry(m).or_default().push(idx)` -/
def idPush : IdHash → Nat → Nat → IdHash
  | [], m, idx => [(m, [idx])]
  | (k, v) :: t, m, idx => if k = m then (k, v ++ [idx]) :: t else (k, v) :: idPush t m idx

/-- `idhash.entry(m).or_default()` (creates an empty entry when absent) -/
def idTouch : IdHash → Nat → IdHash
  | [], m => [(m, [])]
  | (k, v) :: t, m => if k = m then (k, v) :: t else (k, v) :: idTouch t m

/-! ### first loop: `deps_order`, `idhash` -/

/-- `Vec::insert(pos, x)`; panics (`none`) when `pos > len` -/
def insertAt? : List Nat → Nat → Nat → Option (List Nat)
  | l, 0, x => some (x :: l)
  | [], _ + 1, _ => none
  | a :: l, p + 1, x =>
    match insertAt? l p x with
    | none => none
    | some r => some (a :: r)

structure Prep where
  order : List Nat
  bLen : Nat
  aLen : Nat
  idhash : IdHash
  deriving Repr

/-- body of `for (idx, dep) in self.deps.iter().enumerate()` -/
def prepStep (st : Prep) (idx : Nat) (dep : RuleItem) : Except CompileErr Prep :=
  let ins : Option (List Nat × Nat × Nat) :=
    match dep.prio with
    | .normal =>
      -- `deps_order.insert(deps_order.len() - afterall_len, idx)`
      if st.aLen ≤ st.order.length then
        match insertAt? st.order (st.order.length - st.aLen) idx with
        | none => none
        | some o => some (o, st.bLen, st.aLen)
      else none
    | .beforeAll =>
      -- `deps_order.insert(beforeall_len, idx); beforeall_len += 1`
      match insertAt? st.order st.bLen idx with
      | none => none
      | some o => some (o, st.bLen + 1, st.aLen)
    | .afterAll =>
      -- `deps_order.insert(deps_order.len(), idx); afterall_len += 1`
      match insertAt? st.order st.order.length idx with
      | none => none
      | some o => some (o, st.bLen, st.aLen + 1)
  match ins with
  | none => .error .internal
  | some (o, b, a) =>
    -- `for mark in &dep.marks { idhash.entry(*mark).or_default().push(idx) }`
    .ok ⟨o, b, a, dep.marks.foldl (fun h m => idPush h m idx) st.idhash⟩

/-- the `enumerate` loop, `idx` = number of items already consumed -/
def prepGo : Nat → List RuleItem → Prep → Except CompileErr Prep
  | _, [], st => .ok st
  | idx, dep :: rest, st =>
    match prepStep st idx dep with
    | .error e => .error e
    | .ok st' => prepGo (idx + 1) rest st'

def prepare (rs : List RuleItem) : Except CompileErr Prep :=
  prepGo 0 rs ⟨[], 0, 0, []⟩

/-- `deps_order` alone (for `deps_order_spec`) -/
def depsOrder (rs : List RuleItem) : Except CompileErr (List Nat) :=
  match prepare rs with
  | .error e => .error e
  | .ok p => .ok p.order

/-! ### second loop: dependency graph and `Require` checks -/

abbrev Graph := List (List Nat)

/-- `HashSet::insert` -/
def setInsert (s : List Nat) (x : Nat) : List Nat :=
  if s.contains x then s else s ++ [x]

/-- `deps_graph.get_mut(pos).unwrap().insert(x)` -/
def graphInsert (g : Graph) (pos x : Nat) : Except CompileErr Graph :=
  match g[pos]? with
  | none => .error .internal
  | some s => .ok (g.set pos (setInsert s x))

/-- one `match constraint { … }`; `dep = self.deps[idx]` -/
def applyCons (phantom : Bool) (dep : RuleItem) (idx : Nat) (st : IdHash × Graph) (c : Cons) :
    Except CompileErr (IdHash × Graph) :=
  match c with
  | .before v =>
    let h := if phantom then idTouch st.1 v else st.1
    match foldE (fun g depidx => graphInsert g depidx idx) st.2 ((idGet h v).getD []) with
    | .error e => .error e
    | .ok g => .ok (h, g)
  | .after v =>
    let h := if phantom then idTouch st.1 v else st.1
    match foldE (fun g depidx => graphInsert g idx depidx) st.2 ((idGet h v).getD []) with
    | .error e => .error e
    | .ok g => .ok (h, g)
  | .require v =>
    if (idGet st.1 v).isSome then .ok st
    else
      -- the panic message evaluates `dep.marks.get(0).unwrap()`
      match dep.marks.head? with
      | none => .error .internal
      | some r => .error (.missing r v)

/-- body of `for idx in deps_order.iter().copied()` (second loop) -/
def itemStep (phantom : Bool) (rs : List RuleItem) (st : IdHash × Graph) (idx : Nat) :
    Except CompileErr (IdHash × Graph) :=
  match rs[idx]? with
  | none => .error .internal
  | some dep => foldE (applyCons phantom dep idx) st dep.cons

def buildGraph (phantom : Bool) (rs : List RuleItem) (order : List Nat) (st : IdHash × Graph) :
    Except CompileErr (IdHash × Graph) :=
  foldE (itemStep phantom rs) st order

/-! ### outer selection loop -/

/-- the inner `for idx in deps_order` of the `'outer` loop: first not-inserted `idx` whose set is empty -/
def scan (ins : List Bool) (g : Graph) : List Nat → Except CompileErr (Option Nat)
  | [] => .ok none
  | idx :: rest =>
    match ins[idx]? with
    | none => .error .internal
    | some true => scan ins g rest
    | some false =>
      match g[idx]? with
      | none => .error .internal
      | some [] => .ok (some idx)
      | some (_ :: _) => scan ins g rest

/-- `for d in deps_graph.iter_mut() { d.remove(&idx) }` -/
def graphRemove (g : Graph) (idx : Nat) : Graph :=
  g.map (fun s => s.filter (fun x => x != idx))

/-- `'outer: while deps_remaining > 0 { … }`; structural on `deps_remaining` -/
def selectLoop (order : List Nat) : Graph → List Bool → Nat → List Nat → Except CompileErr (List Nat)
  | _, _, 0, result => .ok result
  | g, ins, remaining + 1, result =>
    match scan ins g order with
    | .error e => .error e
    | .ok none => .error .cyclic
    | .ok (some idx) =>
      selectLoop order (graphRemove g idx) (ins.set idx true) remaining (result ++ [idx])

/-- `Ruler::compile`, returning `result_idx` -/
def compile (phantom : Bool) (rs : List RuleItem) : Except CompileErr (List Nat) :=
  match prepare rs with
  | .error e => .error e
  | .ok p =>
    match buildGraph phantom rs p.order (p.idhash, List.replicate rs.length []) with
    | .error e => .error e
    | .ok st => selectLoop p.order st.2 (List.replicate rs.length false) rs.length []

/-! ### history API (`Ruler<M,T>` without payloads and without the `compiled` cache) -/

structure Ruler where
  deps : List RuleItem
  deriving Repr, DecidableEq

namespace Ruler

def new : Ruler := ⟨[]⟩

/-- `RuleItem::new(mark, value)` pushed at the end -/
def add (r : Ruler) (mark : Nat) : Ruler :=
  ⟨r.deps ++ [⟨[mark], .normal, []⟩]⟩

/-- `self.deps.retain(|dep| !dep.marks.contains(&mark))` -/
def remove (r : Ruler) (mark : Nat) : Ruler :=
  ⟨r.deps.filter (fun d => !d.marks.contains mark)⟩

/-- `self.deps.iter().any(|dep| dep.marks.contains(&mark))` -/
def contains (r : Ruler) (mark : Nat) : Bool :=
  r.deps.any (fun d => d.marks.contains mark)

/-- the `&mut RuleItem` returned by `add` is the last element of `deps` -/
def modifyLast (f : RuleItem → RuleItem) : List RuleItem → List RuleItem
  | [] => []
  | [d] => [f d]
  | d :: e :: t => d :: modifyLast f (e :: t)

def before (r : Ruler) (m : Nat) : Ruler :=
  ⟨modifyLast (fun d => { d with cons := d.cons ++ [.before m] }) r.deps⟩

def after (r : Ruler) (m : Nat) : Ruler :=
  ⟨modifyLast (fun d => { d with cons := d.cons ++ [.after m] }) r.deps⟩

def require (r : Ruler) (m : Nat) : Ruler :=
  ⟨modifyLast (fun d => { d with cons := d.cons ++ [.require m] }) r.deps⟩

def alias (r : Ruler) (m : Nat) : Ruler :=
  ⟨modifyLast (fun d => { d with marks := d.marks ++ [m] }) r.deps⟩

def beforeAll (r : Ruler) : Ruler :=
  ⟨modifyLast (fun d => { d with prio := .beforeAll }) r.deps⟩

def afterAll (r : Ruler) : Ruler :=
  ⟨modifyLast (fun d => { d with prio := .afterAll }) r.deps⟩

/-- what `iter()` computes on a cold cache (repaired lookup) -/
def compile (r : Ruler) : Except CompileErr (List Nat) :=
  MdIt.Ruler.compile false r.deps

end Ruler

end MdIt.Ruler
