/-
  Model of the `render` method of every shipped node kind: which calls each node issues through the
  public `Renderer` trait (`src/parser/renderer.rs`), in order, as a list of `Render.Event`s.

      Root                                  src/parser/core/root.rs
      Paragraph ATXHeading SetextHeader     src/plugins/cmark/block/{paragraph,heading,lheading}.rs
      ThematicBreak CodeBlock CodeFence     src/plugins/cmark/block/{hr,code,fence}.rs
      Blockquote OrderedList BulletList ListItem   src/plugins/cmark/block/{blockquote,list}.rs
      Text TextSpecial                      src/parser/inline/builtin/skip_text.rs
      Softbreak Hardbreak                   src/plugins/cmark/inline/newline.rs
      CodeInline Em Strong Link Image Autolink     src/plugins/cmark/inline/{backticks,emphasis,link,image,autolink}.rs
      Strikethrough                         src/plugins/extra/inline/strikethrough.rs
      HtmlBlock HtmlInline                  src/plugins/html/{html_block,html_inline}.rs  (ONLY callers of `text_raw`)
      Empty / InlineRoot / EmphMarker / any kind without its own `render`
                                            src/parser/node.rs  (`NodeValue::render` default = `unimplemented!`)

  `fmt.contents(&node.children)` is `for node in nodes.iter() { self.render(node) }` in BOTH renderers
  that exist (the built-in `HTMLRenderer` and any recorder): `renderList`.

  `node.attrs` is `Vec<(&'static str, String)>`; the only shipped code that pushes into it is the
  `sourcepos` plugin (`("data-sourcepos", "l:c-l:c")`, `src/plugins/sourcepos.rs`).  Here it is an
  arbitrary list of pairs; the restriction is a hypothesis of the theorems that need it.

  Strings are `List Char`.  Panics are values: `TAG[self.level as usize - 1]` is a partial look-up
  (`tagAt`), the default `render` is `.error .unimplemented`, and `unescape_all` is the partial
  `Entity.unescapeAllE` (shown never to fail in `Props/C12.lean`; used here so that nothing is
  assumed).  No render method has any other partial operation.

  A node kind that does not call `fmt.contents` never renders its children, whatever they are
  (`Text`, `CodeBlock`, `Image`, … — parsed trees have none there, hand-built ones may): the model
  ignores them in exactly the same places.  `Image` reads its subtree for the alt text only.
-/
import MdIt.Model.Render
import MdIt.Model.Entity
import MdIt.Model.Alt
import MdIt.Model.Refs

namespace MdIt.NodeRender

open MdIt.Render (Event)

inductive Panic where
  /-- `TAG[self.level as usize - 1]`: index out of bounds (level too big), or `0 - 1` (overflow check in
      debug builds / wrap to `usize::MAX` and then out of bounds in release builds; the
      `debug_assert!` in front of it fires first in debug builds).  Always a panic. -/
  | index
  /-- `unimplemented!("{} doesn't implement render", node.name())` -/
  | unimplemented
  /-- a panic inside `unescape_all` (none exists: `Entity.unescapeAllE_total`) -/
  | unescape (e : MdIt.Entity.Panic)
  deriving Repr, DecidableEq

/-- One constructor per shipped node kind, with the fields its `render` reads.  Fields `render`
    never reads (`marker`, `marker_len`, `TextSpecial::markup/info`, `Root::content/env`) are left out. -/
inductive Kind where
  | root
  | paragraph
  | atx (level : Nat)
  | setext (level : Nat)
  | hr
  | codeBlock (content : List Char)
  | codeFence (info content langPrefix : List Char)
  | blockquote
  | orderedList (start : Nat)
  | bulletList
  | listItem
  | text (s : List Char)
  | special (content : List Char)
  | softbreak
  | hardbreak
  | codeInline
  | em
  | strong
  | strike
  | link (url : List Char) (title : Option (List Char))
  | image (url : List Char) (title : Option (List Char))
  | autolink (url : List Char)
  | htmlBlock (content : List Char)
  | htmlInline (content : List Char)
  /-- a kind whose `NodeValue` impl has no `render` (`Node::default()`, `InlineRoot`, `EmphMarker`) -/
  | placeholder
  deriving Repr, DecidableEq

structure Node where
  kind : Kind
  attrs : List (List Char × List Char)
  children : List Node
  deriving Repr

/-! ## literals -/

def tP : List Char := ['p']
def tBlockquote : List Char := ['b', 'l', 'o', 'c', 'k', 'q', 'u', 'o', 't', 'e']
def tUl : List Char := ['u', 'l']
def tOl : List Char := ['o', 'l']
def tLi : List Char := ['l', 'i']
def tPre : List Char := ['p', 'r', 'e']
def tCode : List Char := ['c', 'o', 'd', 'e']
def tH1 : List Char := ['h', '1']
def tH2 : List Char := ['h', '2']
def tH3 : List Char := ['h', '3']
def tH4 : List Char := ['h', '4']
def tH5 : List Char := ['h', '5']
def tH6 : List Char := ['h', '6']
def tHr : List Char := ['h', 'r']
def tEm : List Char := ['e', 'm']
def tStrong : List Char := ['s', 't', 'r', 'o', 'n', 'g']
def tS : List Char := ['s']
def tA : List Char := ['a']
def tImg : List Char := ['i', 'm', 'g']
def tBr : List Char := ['b', 'r']

def aStart : List Char := ['s', 't', 'a', 'r', 't']
def aClass : List Char := ['c', 'l', 'a', 's', 's']
def aHref : List Char := ['h', 'r', 'e', 'f']
def aTitle : List Char := ['t', 'i', 't', 'l', 'e']
def aSrc : List Char := ['s', 'r', 'c']
def aAlt : List Char := ['a', 'l', 't']
/-- what `plugins::sourcepos` pushes into `node.attrs` -/
def aSourcepos : List Char :=
  ['d', 'a', 't', 'a', '-', 's', 'o', 'u', 'r', 'c', 'e', 'p', 'o', 's']

/-- `static TAG : [&str; 6]` of `ATXHeading::render` -/
def atxTags : List (List Char) := [tH1, tH2, tH3, tH4, tH5, tH6]
/-- `static TAG : [&str; 2]` of `SetextHeader::render` -/
def setextTags : List (List Char) := [tH1, tH2]

/-- `TAG[level as usize - 1]` -/
def tagAt (tags : List (List Char)) (level : Nat) : Except Panic (List Char) :=
  if level = 0 then .error .index
  else
    match tags[level - 1]? with
    | some t => .ok t
    | none => .error .index

/-! ## `CodeFence`: language name -/

/-- `char::is_whitespace` (Unicode `White_Space`, the generated table: `Refs.isWs_table`) -/
def isWs (c : Char) : Bool := MdIt.Refs.isWs c.toNat

/-- `s.split_whitespace().next().unwrap_or("")`: skip white space, take the maximal run of
    non-white-space characters -/
def firstWord (s : List Char) : List Char :=
  (s.dropWhile isWs).takeWhile (fun c => !isWs c)

/-- the attribute list `CodeFence::render` hands to `fmt.open("code", ..)`:
    ```
    let info = unescape_all(&self.info);
    let lang_name = info.split_whitespace().next().unwrap_or("");
    let mut attrs = node.attrs.clone();
    if !lang_name.is_empty() { attrs.push(("class", format!("{}{}", self.lang_prefix, lang_name))); }
    ``` -/
def fenceAttrs (lookup : List Char → Option (List Char)) (attrs : List (List Char × List Char))
    (info langPrefix : List Char) : Except Panic (List (List Char × List Char)) :=
  match MdIt.Entity.unescapeAllE lookup info with
  | .error e => .error (.unescape e)
  | .ok info' =>
    let langName := firstWord info'
    if !langName.isEmpty then .ok (attrs ++ [(aClass, langPrefix ++ langName)])
    else .ok attrs

/-! ## `OrderedList`: `start` -/

/-- `self.start.to_string()` (`u32` → decimal) -/
def natToString (n : Nat) : List Char := Nat.toDigits 10 n

/-- `let mut attrs = node.attrs.clone(); if self.start != 1 { attrs.push(("start", start.to_string())) }` -/
def olAttrs (attrs : List (List Char × List Char)) (start : Nat) : List (List Char × List Char) :=
  if start != 1 then attrs ++ [(aStart, natToString start)] else attrs

/-! ## `Link` / `Autolink` / `Image` attribute lists -/

/-- `if let Some(title) = &self.title { attrs.push(("title", title.clone())); }` -/
def pushTitle (attrs : List (List Char × List Char)) : Option (List Char) → List (List Char × List Char)
  | some t => attrs ++ [(aTitle, t)]
  | none => attrs

/-- `Link::render`: `attrs.push(("href", url))`, then the title -/
def linkAttrs (attrs : List (List Char × List Char)) (url : List Char) (title : Option (List Char)) :
    List (List Char × List Char) :=
  pushTitle (attrs ++ [(aHref, url)]) title

/-- `Image::render`: `src`, then `alt`, then the title -/
def imageAttrs (attrs : List (List Char × List Char)) (url alt : List Char)
    (title : Option (List Char)) : List (List Char × List Char) :=
  pushTitle ((attrs ++ [(aSrc, url)]) ++ [(aAlt, alt)]) title

/-! ## the image's view of its subtree (`node.walk`) -/

/-- A node that contributes text of its own to the walk and ALSO has children (hand-built trees
    only): `walk` visits the node, then its children.  The same visiting sequence is produced by a
    transparent container holding the leaf followed by the children. -/
def leafWith (leaf : MdIt.Alt.Inl) : List MdIt.Alt.Inl → MdIt.Alt.Inl
  | [] => leaf
  | cs => .wrap 1 (leaf :: cs)

mutual
/-- the node as the alt closure sees it: `Text`/`TextSpecial` contribute their content,
    `Softbreak`/`Hardbreak` a line feed, every other kind nothing; children are walked in order -/
def toInl : Node → MdIt.Alt.Inl
  | ⟨.text s, _, cs⟩ => leafWith (.text s) (toInlList cs)
  | ⟨.special c, _, cs⟩ => leafWith (.special c) (toInlList cs)
  | ⟨.softbreak, _, cs⟩ => leafWith .soft (toInlList cs)
  | ⟨.hardbreak, _, cs⟩ => leafWith .hard (toInlList cs)
  | ⟨_, _, cs⟩ => .wrap 1 (toInlList cs)
def toInlList : List Node → List MdIt.Alt.Inl
  | [] => []
  | n :: r => toInl n :: toInlList r
end

/-- `alt` as `Image::render` assembles it (the walk starts at the image node itself, which
    contributes nothing: `Alt.altOf`) -/
def imageAlt (children : List Node) : List Char := MdIt.Alt.altOf (toInlList children)

/-! ## `render` -/

/-- `pre-events; fmt.contents(&node.children); post-events` -/
def wrap (pre : List Event) (body : Except Panic (List Event)) (post : List Event) :
    Except Panic (List Event) :=
  match body with
  | .ok b => .ok (pre ++ b ++ post)
  | .error e => .error e

mutual
/-- `node.node_value.render(node, fmt)`: the trait calls, in order.
    `lookup` is `get_entity_from_str` (used by `unescape_all` on the fence info string). -/
def render (lookup : List Char → Option (List Char)) : Node → Except Panic (List Event)
  -- fmt.contents(&node.children);
  | ⟨.root, _, cs⟩ => renderList lookup cs
  -- fmt.cr(); fmt.open("p", &node.attrs); fmt.contents(..); fmt.close("p"); fmt.cr();
  | ⟨.paragraph, attrs, cs⟩ =>
    wrap [.cr, .open tP attrs] (renderList lookup cs) [.close tP, .cr]
  -- fmt.cr(); fmt.open(TAG[level-1], &node.attrs); fmt.contents(..); fmt.close(TAG[level-1]); fmt.cr();
  -- (the second `TAG[..]` is the same expression on the same immutable field: same value)
  | ⟨.atx level, attrs, cs⟩ =>
    match tagAt atxTags level with
    | .error e => .error e
    | .ok tag => wrap [.cr, .open tag attrs] (renderList lookup cs) [.close tag, .cr]
  | ⟨.setext level, attrs, cs⟩ =>
    match tagAt setextTags level with
    | .error e => .error e
    | .ok tag => wrap [.cr, .open tag attrs] (renderList lookup cs) [.close tag, .cr]
  -- fmt.cr(); fmt.self_close("hr", &node.attrs); fmt.cr();
  | ⟨.hr, attrs, _⟩ => .ok [.cr, .selfClose tHr attrs, .cr]
  -- fmt.cr(); fmt.open("pre", &[]); fmt.open("code", &node.attrs); fmt.text(&self.content);
  -- fmt.close("code"); fmt.close("pre"); fmt.cr();
  | ⟨.codeBlock content, attrs, _⟩ =>
    .ok [.cr, .open tPre [], .open tCode attrs, .text content, .close tCode, .close tPre, .cr]
  -- same with `attrs` = node.attrs (+ class)
  | ⟨.codeFence info content langPrefix, attrs, _⟩ =>
    match fenceAttrs lookup attrs info langPrefix with
    | .error e => .error e
    | .ok attrs' =>
      .ok [.cr, .open tPre [], .open tCode attrs', .text content, .close tCode, .close tPre, .cr]
  -- fmt.cr(); fmt.open("blockquote", &node.attrs); fmt.cr(); fmt.contents(..); fmt.cr();
  -- fmt.close("blockquote"); fmt.cr();
  | ⟨.blockquote, attrs, cs⟩ =>
    wrap [.cr, .open tBlockquote attrs, .cr] (renderList lookup cs) [.cr, .close tBlockquote, .cr]
  -- fmt.cr(); fmt.open("ol", &attrs); fmt.cr(); fmt.contents(..); fmt.cr(); fmt.close("ol"); fmt.cr();
  | ⟨.orderedList start, attrs, cs⟩ =>
    wrap [.cr, .open tOl (olAttrs attrs start), .cr] (renderList lookup cs) [.cr, .close tOl, .cr]
  | ⟨.bulletList, attrs, cs⟩ =>
    wrap [.cr, .open tUl attrs, .cr] (renderList lookup cs) [.cr, .close tUl, .cr]
  -- fmt.open("li", &node.attrs); fmt.contents(..); fmt.close("li"); fmt.cr();
  | ⟨.listItem, attrs, cs⟩ =>
    wrap [.open tLi attrs] (renderList lookup cs) [.close tLi, .cr]
  -- fmt.text(&self.content);
  | ⟨.text s, _, _⟩ => .ok [.text s]
  | ⟨.special content, _, _⟩ => .ok [.text content]
  -- fmt.cr();
  | ⟨.softbreak, _, _⟩ => .ok [.cr]
  -- fmt.self_close("br", &[]); fmt.cr();
  | ⟨.hardbreak, _, _⟩ => .ok [.selfClose tBr [], .cr]
  -- fmt.open("code", &node.attrs); fmt.contents(..); fmt.close("code");
  | ⟨.codeInline, attrs, cs⟩ => wrap [.open tCode attrs] (renderList lookup cs) [.close tCode]
  | ⟨.em, attrs, cs⟩ => wrap [.open tEm attrs] (renderList lookup cs) [.close tEm]
  | ⟨.strong, attrs, cs⟩ => wrap [.open tStrong attrs] (renderList lookup cs) [.close tStrong]
  | ⟨.strike, attrs, cs⟩ => wrap [.open tS attrs] (renderList lookup cs) [.close tS]
  -- fmt.open("a", &attrs); fmt.contents(..); fmt.close("a");
  | ⟨.link url title, attrs, cs⟩ =>
    wrap [.open tA (linkAttrs attrs url title)] (renderList lookup cs) [.close tA]
  -- fmt.self_close("img", &attrs);   (no `contents`: the children are only walked for `alt`)
  | ⟨.image url title, attrs, cs⟩ =>
    .ok [.selfClose tImg (imageAttrs attrs url (imageAlt cs) title)]
  | ⟨.autolink url, attrs, cs⟩ =>
    wrap [.open tA (attrs ++ [(aHref, url)])] (renderList lookup cs) [.close tA]
  -- fmt.cr(); fmt.text_raw(&self.content); fmt.cr();
  | ⟨.htmlBlock content, _, _⟩ => .ok [.cr, .raw content, .cr]
  -- fmt.text_raw(&self.content);
  | ⟨.htmlInline content, _, _⟩ => .ok [.raw content]
  -- unimplemented!(..)
  | ⟨.placeholder, _, _⟩ => .error .unimplemented
/-- `fmt.contents(nodes)`: `for node in nodes.iter() { self.render(node); }` — a panic in a child
    ends the loop -/
def renderList (lookup : List Char → Option (List Char)) : List Node → Except Panic (List Event)
  | [] => .ok []
  | n :: r =>
    match render lookup n with
    | .error e => .error e
    | .ok a =>
      match renderList lookup r with
      | .error e => .error e
      | .ok b => .ok (a ++ b)
end

/-- `Node::render()` / `Node::xrender()`: the built-in serializer run on the node's trait calls -/
def renderHtml (lookup : List Char → Option (List Char)) (xhtml : Bool) (n : Node) :
    Except Panic (List Char) :=
  match render lookup n with
  | .ok evs => .ok (MdIt.Render.serialize xhtml evs)
  | .error e => .error e

/-! ## vocabulary of the tree-level statements (`Props/NodeRender.lean`) -/

/-- does the kind's `render` call `fmt.contents(&node.children)` -/
def Kind.isContainer : Kind → Bool
  | .root | .paragraph | .atx _ | .setext _ | .blockquote | .orderedList _ | .bulletList | .listItem
  | .codeInline | .em | .strong | .strike | .link _ _ | .autolink _ => true
  | _ => false

/-- the raw-HTML plugin's kinds -/
def Kind.isHtml : Kind → Bool
  | .htmlBlock _ | .htmlInline _ => true
  | _ => false

/-- the panic a node's OWN `render` code raises (before / independently of its children) -/
def Kind.panic? : Kind → Option Panic
  | .atx level => if 1 ≤ level ∧ level ≤ 6 then none else some .index
  | .setext level => if 1 ≤ level ∧ level ≤ 2 then none else some .index
  | .placeholder => some .unimplemented
  | _ => none

mutual
/-- every node of the tree, pre-order -/
def nodes : Node → List Node
  | ⟨k, a, cs⟩ => ⟨k, a, cs⟩ :: nodesList cs
def nodesList : List Node → List Node
  | [] => []
  | n :: r => nodes n ++ nodesList r
end

mutual
/-- the nodes whose `render` is invoked when the tree is rendered, in invocation order
    (children of a kind that does not call `fmt.contents` are never rendered) -/
def visited : Node → List Node
  | ⟨k, a, cs⟩ => ⟨k, a, cs⟩ :: (if k.isContainer then visitedList cs else [])
def visitedList : List Node → List Node
  | [] => []
  | n :: r => visited n ++ visitedList r
end

end MdIt.NodeRender
