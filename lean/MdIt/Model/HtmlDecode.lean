/-
  What a browser makes of a double-quoted attribute value (property C04, last mile).

  The renderer writes `escape_html(url)` between the quotes of `href="…"` / `src="…"`
  (`Model/Render.lean: makeAttr`).  The HTML tokenizer then decodes EVERY character reference in the
  value — decimal `&#106;` and hexadecimal `&#x6a;` ones (also without the final `;`) and named ones
  (`&colon;`) — not only the four entities `escape_html` produces.  `browserDecode` is that decoding:
  one left-to-right pass, the WHATWG "character reference state" entered from "attribute value
  (double-quoted) state", simplified exactly as the harness oracle `attr_unescape`
  (`/verif/harness/src/oracle/c04.rs`) simplifies it — the stream `htmldecode` compares the two:

    at `&`
      * `&#` + 1..8 decimal digits, optional `;`        → that scalar value
      * `&#x` / `&#X` + 1..8 hexadecimal digits, optional `;` → that scalar value
          (0, surrogates and values > 0x10FFFF give U+FFFD; a 9th digit is NOT part of the reference)
      * `&` + 1..33 ASCII alphanumerics + `;`, and the table knows the name → the table's characters
          (the oracle's loop bound is `j - i < 34`, i.e. up to 33 name characters; the longest
           name in the table has 31)
      * otherwise the `&` is literal and scanning continues with the next character.

  Strings are `List Char` (the oracle works on a `Vec<char>`).  The entity table is a parameter
  `named`, asked with the name INCLUDING the leading `&` and the final `;` (as the rows of
  `entities::ENTITIES` / `Gen.Entities.table` are written).

  Nothing here can panic: the oracle indexes only behind explicit bounds tests, and
  `u32::from_str_radix` cannot fail on 1..8 digits of the right radix (99999999 and 0xFFFFFFFF both
  fit in a `u32`; `Props/HtmlDecode.lean: numVal_fits`), so its `Err` arm is dead and not modelled.
-/
import MdIt.Model.Render

namespace MdIt.HtmlDecode

/-- `char::is_ascii_digit` -/
def isDec (c : Char) : Bool := 48 ≤ c.toNat && c.toNat ≤ 57

/-- `char::is_ascii_hexdigit` -/
def isHex (c : Char) : Bool :=
  isDec c || (65 ≤ c.toNat && c.toNat ≤ 70) || (97 ≤ c.toNat && c.toNat ≤ 102)

/-- `char::is_ascii_alphanumeric` -/
def isAlnum (c : Char) : Bool :=
  isDec c || (65 ≤ c.toNat && c.toNat ≤ 90) || (97 ≤ c.toNat && c.toNat ≤ 122)

/-- value of one digit (only ever applied to a char satisfying `isHex`, so no subtraction truncates) -/
def digitVal (c : Char) : Nat :=
  let n := c.toNat
  if n ≤ 57 then n - 48 else if n ≤ 70 then n - 55 else n - 87

/-- `u32::from_str_radix(digits, radix)` on a string of digits of that radix -/
def numVal (radix : Nat) (ds : List Char) : Nat :=
  ds.foldl (fun a c => a * radix + digitVal c) 0

/-- `char::from_u32(code).filter(|c| *c != '\0').unwrap_or('\u{fffd}')` -/
def scalar (code : Nat) : Char :=
  if code = 0 ∨ (0xD800 ≤ code ∧ code ≤ 0xDFFF) ∨ 0x10FFFF < code then '\uFFFD' else Char.ofNat code

/-- the inner `while j < b.len() && p(b[j]) && j - st < n { j += 1 }` loops: the longest prefix of
    the text, at most `n` characters long, all of whose characters satisfy `p` -/
def takeUpTo (p : Char → Bool) : Nat → List Char → List Char
  | 0, _ => []
  | _ + 1, [] => []
  | n + 1, c :: r => if p c then c :: takeUpTo p n r else []

/-- the numeric branch; `r` is the text BEHIND the `&`.  `some (c, k)`: the reference decodes to `c`
    and occupies `k` characters of `r`.
    `i + 2 < b.len() && b[i + 1] == '#'` is the pattern `'#' :: c :: t`. -/
def numericRef (r : List Char) : Option (Char × Nat) :=
  match r with
  | '#' :: c :: t =>
    let hex : Bool := c == 'x' || c == 'X'
    let body := if hex then t else c :: t
    let ds := takeUpTo (if hex then isHex else isDec) 8 body
    if ds.isEmpty then none
    else
      let k := (if hex then 2 else 1) + ds.length
      some (scalar (numVal (if hex then 16 else 10) ds),
            if body[ds.length]? = some ';' then k + 1 else k)
  | _ => none

/-- the named branch; `r` is the text behind the `&`.  `some (cs, k)`: the reference decodes to the
    characters `cs` and occupies `k` characters of `r` (name and `;`). -/
def namedRef (named : List Char → Option (List Char)) (r : List Char) : Option (List Char × Nat) :=
  let nm := takeUpTo isAlnum 33 r
  if !nm.isEmpty && r[nm.length]? = some ';' then
    match named ('&' :: (nm ++ [';'])) with
    | some cs => some (cs, nm.length + 1)
    | none => none
  else none

/-- the outer `while i < b.len()` loop.  The first argument is the number of characters still to be
    skipped because they belong to a reference that has already been decoded (the oracle's
    `i = j` / `i = j + 1` jumps): the recursion stays structural on the text. -/
def decodeFrom (named : List Char → Option (List Char)) : Nat → List Char → List Char
  | _, [] => []
  | k + 1, _ :: r => decodeFrom named k r
  | 0, c :: r =>
    if c = '&' then
      match numericRef r with
      | some (ch, k) => ch :: decodeFrom named k r
      | none =>
        match namedRef named r with
        | some (cs, k) => cs ++ decodeFrom named k r
        | none => '&' :: decodeFrom named 0 r
    else c :: decodeFrom named 0 r

/-- the attribute value as the browser's DOM holds it (`getAttribute("href")`) -/
def browserDecode (named : List Char → Option (List Char)) (s : List Char) : List Char :=
  decodeFrom named 0 s

end MdIt.HtmlDecode
