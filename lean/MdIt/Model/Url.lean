/-
  Model of `src/common/mdurl/encode.rs` and `src/common/mdurl/asciiset.rs`.

  Bytes are plain `Nat` (< 256 at the boundary, enforced by the driver / the harness).
  Two models of `encode`:
    * `encodeIdx` — the index loop as written in Rust, every indexing a partial read,
      `String::from_utf8(..).unwrap()` modelled by the final ASCII test;
    * `encodeL`   — structural recursion over the byte list (used by the theorems).
  `Props/C17.lean` proves `encodeIdx = .ok ∘ encodeL`.
-/
namespace MdIt.Url

/-- `u8::is_ascii_hexdigit` -/
def isHex (b : Nat) : Bool :=
  (48 ≤ b && b ≤ 57) || (65 ≤ b && b ≤ 70) || (97 ≤ b && b ≤ 102)

/-- `DIGITS[n]` for `n < 16` (`b"0123456789ABCDEF"`); out of range is a panic in Rust, `none` here -/
def digit? (n : Nat) : Option Nat :=
  if n < 10 then some (48 + n) else if n < 16 then some (55 + n) else none

/-- total version used by the list model (argument is always `< 16` there) -/
def digit (n : Nat) : Nat := if n < 10 then 48 + n else 55 + n

/-- `AsciiSet(u128)`: the set is the 128-bit constant; `has` tests bit `b` -/
def setHas (bits : Nat) (b : Nat) : Bool := (bits >>> b) % 2 == 1

/-- `AsciiSet::add` -/
def setAdd (bits : Nat) (b : Nat) : Nat := bits ||| (1 <<< b)

/-- `AsciiSet::remove`: `self.0 & !(1 << byte)` on the `u128` -/
def setRemove (bits : Nat) (b : Nat) : Nat := bits &&& ((2 ^ 128 - 1) ^^^ (1 <<< b))

/-- a history of `add` (`false`) / `remove` (`true`) calls, left to right -/
def setOps (bits : Nat) (ops : List (Bool × Nat)) : Nat :=
  ops.foldl (fun s op => if op.1 then setRemove s op.2 else setAdd s op.2) bits

/-- `AsciiSet::new()` constant, regenerated into `Gen.Consts` and compared there -/
def asciiNew : Nat := 0x07fffffe07fffffe03ff000000000000

/-- `AsciiSet::from(str)` -/
def setFrom (bs : List Nat) : Nat := bs.foldl setAdd asciiNew

/-- `byte >= 0x80 || !exclude.has(byte)` (short-circuit: `has` only sees bytes < 128) -/
def shouldEncode (S : Nat → Bool) (b : Nat) : Bool := b ≥ 128 || !S b

/-- what one byte that is not part of a kept escape turns into -/
def encByte (S : Nat → Bool) (b : Nat) : List Nat :=
  if shouldEncode S b then [37, digit (b / 16), digit (b % 16)] else [b]

/-- structural model of `encode` -/
def encodeL (S : Nat → Bool) (keep : Bool) : List Nat → List Nat
  | [] => []
  | [b] => encByte S b
  | [b, x] => encByte S b ++ encodeL S keep [x]
  | b :: x :: y :: r =>
    if keep && b == 37 && isHex x && isHex y then
      37 :: x :: y :: encodeL S keep r
    else
      encByte S b ++ encodeL S keep (x :: y :: r)
termination_by l => l.length

inductive Panic where
  | index      -- slice index out of range
  | utf8       -- `String::from_utf8(..).unwrap()` on non-UTF-8
  | fuel
  deriving Repr, DecidableEq

/-- `bytes[i]` -/
def rd (a : Array Nat) (i : Nat) : Except Panic Nat :=
  match a[i]? with
  | some b => .ok b
  | none => .error .index

/-- one iteration of the `while i < len` loop, as written: the bytes pushed onto `result`
    and whether `i` advances by three (kept escape) or by one -/
def encodeStep (S : Nat → Bool) (keep : Bool) (bytes : Array Nat) (i : Nat) :
    Except Panic (List Nat × Bool) :=
  match rd bytes i with
  | .error e => .error e
  | .ok byte =>
    let should := shouldEncode S byte
    let plain : Except Panic (List Nat × Bool) :=
      if should then
        match digit? (byte / 16), digit? (byte % 16) with
        | some d1, some d2 => .ok ([37, d1, d2], false)
        | _, _ => .error .index
      else .ok ([byte], false)
    if keep && byte == 37 && i + 2 < bytes.size then
      match rd bytes (i + 1), rd bytes (i + 2) with
      | .ok x, .ok y => if isHex x && isHex y then .ok ([byte, x, y], true) else plain
      | .error e, _ => .error e
      | _, .error e => .error e
    else plain

def encodeLoop (S : Nat → Bool) (keep : Bool) (bytes : Array Nat) (i : Nat) (result : List Nat) :
    Except Panic (List Nat) :=
  if _h : i < bytes.size then
    match encodeStep S keep bytes i with
    | .error e => .error e
    | .ok (out, three) =>
      encodeLoop S keep bytes (if three then i + 3 else i + 1) (result ++ out)
  else
    .ok result
termination_by bytes.size - i
decreasing_by split <;> omega

/-- `encode`: loop + `String::from_utf8(result).unwrap()` (ASCII is always valid UTF-8;
    a byte ≥ 128 produced here would not be guaranteed valid, so it is a `utf8` panic in the model) -/
def encodeIdx (S : Nat → Bool) (keep : Bool) (bytes : List Nat) : Except Panic (List Nat) :=
  match encodeLoop S keep bytes.toArray 0 [] with
  | .error e => .error e
  | .ok r => if r.all (· < 128) then .ok r else .error .utf8

/-- percent-decoding: well-formed triplets are decoded, any other `%` is left alone -/
def hexVal (b : Nat) : Nat :=
  if 48 ≤ b && b ≤ 57 then b - 48 else if 65 ≤ b && b ≤ 70 then b - 55 else b - 87

def pctDecode : List Nat → List Nat
  | [] => []
  | [b] => [b]
  | [b, x] => b :: pctDecode [x]
  | b :: x :: y :: r =>
    if b == 37 && isHex x && isHex y then (hexVal x * 16 + hexVal y) :: pctDecode r
    else b :: pctDecode (x :: y :: r)
termination_by l => l.length

end MdIt.Url
