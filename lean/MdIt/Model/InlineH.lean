/-
  The INLINE-level parser WITH the raw-HTML inline rule in the chain: `Model/Inline.lean` (the cmark /
  extra inline rules, `InlineParser::tokenize`, `InlineParser::skip_token` with its memo) composed with
  `Model/Html.lean` (`HtmlInlineScanner::run`), over the extended rule enumeration

      RuleIdH := base (r : Inline.RuleId) | html

  Reuse.  NOTHING of the two models is copied or changed: the rule functions (`Inline.runRule`, i.e.
  `ruleText` … `ruleLink` / `ruleImage` / `linkRule` / `parseLink` / `labelLoop`), `silentBumped`,
  `firstChar`, `cacheInsert`, the post pass (`finish`) and `Html.htmlInlineRule` are used as they are.
  The rules of `Model/Inline.lean` already take the look-ahead `skip` (`skip_token`) and the nested
  tokenizer `tok` (`tokenize`) as parameters; what is new here is only the layer that is monomorphic in
  `Inline.RuleId` / reads `cfg.chain` there:

      firstRuleG  = `Inline.firstRule` over an arbitrary id type `ι`
      tokStepG    = `Inline.tokStep`   over a chain `List ι` and a rule runner (statement by statement)
      skipStepG   = `Inline.skipStep`  the same
      runRuleH    = `Inline.runRule` + the case `.html ↦ htmlRule`
      tokLoopH / skipTokenH / tokenizeH / parseInlineH / parseFinishH
                  = the same fuel recursion as `Inline.tokLoop` … `Inline.parseFinish`, with the
                    extended chain in BOTH the tokenizer and the look-ahead (so a tag is skipped as
                    ONE token by `parse_link_label`: `[a <b c="]"> d](u)` is a link)

  The html node.  `Inline.Val` (frozen) has no constructor for `HtmlInline { content }`.  ENCODING: the
  node pushed by the html rule is the childless `Inline.Node`

      ⟨ .special [] content "html_inline" , some (start, end) , [] ⟩            (`htmlNode`)

  i.e. a `TextSpecial` with EMPTY content, the tag text in the markup field and the info string
  `html_inline`, carrying `node.srcmap` (byte offsets) as its range.  This cannot collide with a real
  `TextSpecial`: the escape and entity rules only build nodes whose info is `escape` / `entity`.
  `htmlContent?` decodes.  (The rules inspect pushed nodes only through `isText` (trailing text),
  `asMarker` / `wrapDepth` (delimiter matching), so the encoding is inert for them, as an `HtmlInline`
  node is in the Rust; `FragmentsJoin` leaves it alone.)

  The `link_level` overflow.  `Html.htmlInlineRule` reports `state.link_level += 1` / `-= 1` leaving
  `i32` as `Html.IPanic.overflow`.  `Inline.RPanic` (frozen) has no constructor for "attempt to add
  with overflow"; ENCODING: it is reported as `Panic.rust .underflow`, the class of the arithmetic
  overflow panics ("attempt to subtract with overflow" is literally the message of the `-= 1` case).
  It needs 2^31 - 1 unclosed `<a>` tags (a text of more than 6 GiB) and is never reached by the stream.

  The text rule.  `TextScanner` stops at the FIXED character set of `TextScannerImpl::SkipPunct`
  (`Entity.textStop`, which contains `<`) whenever every marker registered in `text_charmap` belongs
  to that set; `HtmlInlineScanner::MARKER = '<'` does, so loading the html rule (with or without
  autolink) never switches the text rule to the regex implementation and the model's `ruleText`
  applies unchanged.

  Configuration.  `CfgH` = `Inline.Cfg` with a chain over `RuleIdH`.  The engine-level functions take an
  `Inline.Cfg` (read for `maxNesting`, `fns`, `refs`, `normRef`, `entity`, `isWhite`, `isPunctChar` ONLY —
  its own `chain` field is read by `finish` alone: is an emphasis-like rule loaded) and the extended
  chain separately; `parseInlineH` feeds them `cfg.base` and `cfg.chain`.

  Validated against the real parser (`md.inline.parse` with `HtmlInlineScanner` in the chain) by the
  differential stream `inlineh` (`Driver/InlineH.lean`, `harness/src/corr/inlineh.rs`).
-/
import MdIt.Model.Inline
import MdIt.Model.Html

namespace MdIt.InlineH
open MdIt.Inline
open MdIt.InlineOps (Srcmap)

/-- the inline rules that ship with the crate: those of `Model/Inline.lean` and
    `plugins::html::html_inline` -/
inductive RuleIdH where
  | base (r : RuleId)
  | html
  deriving Repr, DecidableEq

def RuleIdH.base? : RuleIdH → Option RuleId
  | .base r => some r
  | .html => none

/-- what the rules read of `MarkdownIt` (as `Inline.Cfg`, the chain over the extended enumeration) -/
structure CfgH where
  maxNesting : Nat
  /-- the compiled inline chain (`md.inline.ruler.iter()`), in execution order -/
  chain : List RuleIdH
  fns : Char → Nat → Option Wrap
  refs : Option Refs.RefMap
  normRef : List Nat → List Nat
  entity : List Char → Option (List Char)
  isWhite : Char → Bool
  isPunctChar : Char → Bool

/-- the `Inline.Cfg` the old rules see; its chain is the html-free part of the chain -/
def CfgH.base (c : CfgH) : Cfg :=
  { maxNesting := c.maxNesting, chain := c.chain.filterMap RuleIdH.base?, fns := c.fns, refs := c.refs,
    normRef := c.normRef, entity := c.entity, isWhite := c.isWhite, isPunctChar := c.isPunctChar }

/-- an html-free configuration as a `CfgH` -/
def CfgH.ofCfg (c : Cfg) : CfgH :=
  { maxNesting := c.maxNesting, chain := c.chain.map .base, fns := c.fns, refs := c.refs,
    normRef := c.normRef, entity := c.entity, isWhite := c.isWhite, isPunctChar := c.isPunctChar }

/-! ## the html node (see the header: ENCODING) -/

def htmlInfo : List Char := "html_inline".toList

def htmlVal (content : List Char) : Val := .special [] content htmlInfo

/-- `Node::new(HtmlInline { content })` with `srcmap = range` -/
def htmlNode (n : Html.InlineNode) : Node := Node.leaf (htmlVal n.content) (some n.range)

/-- `node.cast::<HtmlInline>().map(|x| x.content)` -/
def htmlContent? : Val → Option (List Char)
  | .special [] content info => if info = htmlInfo then some content else none
  | _ => none

/-- see the header: the `link_level` overflow -/
def ofIPanic : Html.IPanic → Panic
  | .rust p => .rust p
  | .overflow => .rust .underflow

/-- `HtmlInlineScanner::run(state, silent)` as a member of the chain: `Html.htmlInlineRule`, with the
    node it returns pushed to `state.node.children` -/
def htmlRule (st : IState) (silent : Bool) : RuleRes :=
  match Html.htmlInlineRule st silent with
  | .error e => .error (ofIPanic e)
  | .ok (o, st', none) => .ok (o, st')
  | .ok (o, st', some n) => .ok (o, st'.push (htmlNode n))

/-! ## the chain, `skip_token`, `tokenize` -/

/-- one rule of the chain -/
def runRuleH (cfg : Cfg) (skip tok : IState → Except Panic IState) (fuel : Nat) :
    RuleIdH → IState → Bool → RuleRes
  | .base r => runRule cfg skip tok fuel r
  | .html => htmlRule

/-- `for rule in self.ruler.iter() { ok = rule(..); if ok.is_some() { break; } }`
    (`Inline.firstRule`, any id type) -/
def firstRuleG {ι : Type} (run : ι → IState → RuleRes) : List ι → IState → RuleRes
  | [], st => .ok (none, st)
  | r :: rs, st =>
    match run r st with
    | .error e => .error e
    | .ok (some n, st') => .ok (some n, st')
    | .ok (none, st') => firstRuleG run rs st'

/-- ONE iteration of the `while state.pos < end` loop of `InlineParser::tokenize`
    (`Inline.tokStep`, any id type; `run` is the rule runner with `skip` / `tok` / `fuel` inside) -/
def tokStepG {ι : Type} (maxNesting : Nat) (chain : List ι) (run : ι → IState → Bool → RuleRes)
    (st : IState) : Except Panic IState :=
  let ok : RuleRes :=
    if st.level < maxNesting then firstRuleG (fun id s => run id s false) chain st
    else .ok (none, st)
  match ok with
  | .error e => .error e
  | .ok (some len, st') => .ok { st' with pos := st'.pos + len }
  | .ok (none, st') =>
    match firstChar st' with
    | .error e => .error e
    | .ok ch =>
      match liftR (st'.pushText st'.pos (st'.pos + ch.utf8Size)) with
      | .error e => .error e
      | .ok st'' => .ok { st'' with pos := st''.pos + ch.utf8Size }

/-- the body of `skip_token` behind the memo lookup and the level guard (`Inline.skipStep`, any id
    type) -/
def skipStepG {ι : Type} (chain : List ι) (run : ι → IState → Bool → RuleRes) (st : IState) :
    Except Panic IState :=
  let pos := st.pos
  match firstRuleG (fun id s => silentBumped (run id) s) chain st with
  | .error e => .error e
  | .ok (some len, st') =>
    .ok { st' with pos := st'.pos + len, cache := cacheInsert st'.cache pos (st'.pos + len) }
  | .ok (none, st') =>
    match firstChar st' with
    | .error e => .error e
    | .ok ch =>
      .ok { st' with pos := st'.pos + ch.utf8Size,
                     cache := cacheInsert st'.cache pos (st'.pos + ch.utf8Size) }

mutual
/-- `InlineParser::tokenize`: the `while state.pos < end` loop (`Inline.tokLoop`); `cfg.chain` is NOT
    read -/
def tokLoopH (cfg : Cfg) (chain : List RuleIdH) : Nat → Nat → IState → Except Panic IState
  | fuel, end_, st =>
    if st.pos < end_ then
      match fuel with
      | 0 => .error .fuel
      | fuel + 1 =>
        match tokStepG cfg.maxNesting chain
            (runRuleH cfg (fun s => skipTokenH cfg chain fuel s) (fun s => tokLoopH cfg chain fuel s.posMax s) fuel)
            st with
        | .error e => .error e
        | .ok st' => tokLoopH cfg chain fuel end_ st'
    else .ok st
/-- `InlineParser::skip_token` (`Inline.skipToken`) -/
def skipTokenH (cfg : Cfg) (chain : List RuleIdH) : Nat → IState → Except Panic IState
  | 0, _ => .error .fuel
  | fuel + 1, st =>
    match st.cache.lookup st.pos with
    | some x => .ok { st with pos := x }
    | none =>
      if st.level < cfg.maxNesting then
        skipStepG chain
          (runRuleH cfg (fun s => skipTokenH cfg chain fuel s) (fun s => tokLoopH cfg chain fuel s.posMax s) fuel)
          st
      else
        -- Too much nesting, just skip until the end of the paragraph.
        .ok { st with pos := st.posMax, cache := cacheInsert st.cache st.pos st.posMax }
end

/-- `InlineParser::tokenize(state)` -/
def tokenizeH (cfg : Cfg) (chain : List RuleIdH) (fuel : Nat) (st : IState) : Except Panic IState :=
  tokLoopH cfg chain fuel st.posMax st

/-- the rule runner both loops use at a given fuel -/
def ruleAtH (cfg : Cfg) (chain : List RuleIdH) (fuel : Nat) (id : RuleIdH) (st : IState) (silent : Bool) :
    RuleRes :=
  runRuleH cfg (fun s => skipTokenH cfg chain fuel s) (fun s => tokLoopH cfg chain fuel s.posMax s) fuel
    id st silent

/-- `md.inline.parse(content, mapping, Node::default(), md, env).children`; same starting fuel as
    `Inline.parseInline` -/
def parseInlineH (cfg : CfgH) (content : List Char) (mapping : Srcmap) : Except Panic (List Node) :=
  match tokenizeH cfg.base cfg.chain (topFuel cfg.base content) (IState.init content mapping) with
  | .error e => .error e
  | .ok st => .ok st.children

/-- inline parse + post pass (`FragmentsJoin` when an emphasis-like rule is loaded) -/
def parseFinishH (cfg : CfgH) (content : List Char) (mapping : Srcmap) : Except Panic (List Node) :=
  match parseInlineH cfg content mapping with
  | .error e => .error e
  | .ok cs => .ok (finish cfg.base cs)

end MdIt.InlineH
