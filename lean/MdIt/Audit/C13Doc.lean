import MdIt.Props.C13Doc

open MdIt MdIt.C13D MdIt.Pipeline

#check @use_resolves_ok
#check @use_resolves_text
#check @use_resolves_iff
#check @doc_use_resolves_iff
#check @doc_resolves_iff
#check @doc_resolves_case_ws
#check @spliceWith_paragraph
#check @parseLink_use
#check @exCfg_chainOK

#print axioms use_resolves_ok
#print axioms use_resolves_text
#print axioms use_resolves_iff
#print axioms doc_use_resolves_iff
#print axioms doc_resolves_iff
#print axioms doc_resolves_case_ws
#print axioms spliceWith_paragraph
#print axioms parseLink_use
#print axioms exCfg_chainOK
