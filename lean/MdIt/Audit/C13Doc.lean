import MdIt.Props.C13Doc

open MdIt MdIt.C13D MdIt.Pipeline

#check @use_resolves_ok
#check @use_resolves_text
#check @use_resolves_iff
#check @doc_use_resolves_iff
#check @doc_resolves_iff
#check @doc_resolves_case_ws
#check @spliceWith_paragraph
#check @parseLink_use
#check @exCfg_chainOK

#print axioms use_resolves_ok
#print axioms use_resolves_text
#print axioms use_resolves_iff
#print axioms doc_use_resolves_iff
#print axioms doc_resolves_iff
#print axioms doc_resolves_case_ws
#print axioms spliceWith_paragraph
#print axioms parseLink_use
#print axioms exCfg_chainOK

-- follow-up: the tree `parseDoc` returns, rendering, definitions leave no node
#check @postPasses_link
#check @postPasses_text
#check @doc_resolves_in_tree
#check @resolved_use_renders
#check @doc_definitions_no_node

#print axioms postPasses_link
#print axioms postPasses_text
#print axioms doc_resolves_in_tree
#print axioms resolved_use_renders
#print axioms doc_definitions_no_node
