import MdIt.Props.HtmlDecode
open MdIt.HtmlDecode
#check @decode_escaped
#check @decode_escape
#check @decode_escape_injective
#check @attr_value_seen
#check @utf8_asChars
#check @browser_sees_validated_url
#check @browser_view_of_safe
#check @browser_safe_inline
#check @browser_safe_ref
#check @browser_safe_autolink
#check @inlineTail_href_from_pipeline
#check @browser_safe_inline_tail
#check @numVal_fits
#check @named5_four
#check @table_four
#check @numeric_any_table
#check @decode_not_injective_without_escape
#check @ampJsX_accepted
#check @seeded_lead_amp_raw
#check @seeded_keep_refs
#print axioms decode_escaped
#print axioms decode_escape
#print axioms decode_escape_injective
#print axioms attr_value_seen
#print axioms utf8_asChars
#print axioms browser_sees_validated_url
#print axioms browser_view_of_safe
#print axioms browser_safe_inline
#print axioms browser_safe_ref
#print axioms browser_safe_autolink
#print axioms inlineTail_href_from_pipeline
#print axioms browser_safe_inline_tail
#print axioms numVal_fits
#print axioms named5_four
#print axioms table_four
#print axioms numeric_any_table
#print axioms decode_not_injective_without_escape
#print axioms ampJsX_accepted
#print axioms seeded_lead_amp_raw
#print axioms seeded_keep_refs
