import MdIt.Props.C09
open MdIt.Ruler
#check @compile_perm
#check @compile_respects
#check @compile_greedy
#check @compile_eq_greedy
#check @compile_isGreedy
#check @deps_order_spec
#check @compile_ok_iff
#check @compile_missing
#check @compile_missing'
#check @compile_cyclic
#check @compile_cyclic'
#check @compile_total
#check @compile_cases
#check @stuck_cycle
#check @docRules_order
#check @phantom_require_accepted
#check @phantom_require_repaired
#check @Ruler.compile_total
#print axioms compile_perm
#print axioms compile_respects
#print axioms compile_greedy
#print axioms compile_eq_greedy
#print axioms compile_isGreedy
#print axioms deps_order_spec
#print axioms compile_ok_iff
#print axioms compile_missing
#print axioms compile_missing'
#print axioms compile_cyclic
#print axioms compile_cyclic'
#print axioms compile_total
#print axioms compile_cases
#print axioms stuck_cycle
#print axioms docRules_order
#print axioms phantom_require_accepted
#print axioms phantom_require_repaired
#print axioms Ruler.compile_total
