import MdIt.Props.TotalTabs

open MdIt

#check @Inline.parseInline_transfer_mapT
#print axioms Inline.parseInline_transfer_mapT
#check @Inline.parseInline_total_mapT
#print axioms Inline.parseInline_total_mapT
#check @Inline.parseInline_total_mapT_all
#print axioms Inline.parseInline_total_mapT_all
#check @Inline.parseInline_total_mapT_noesctick
#print axioms Inline.parseInline_total_mapT_noesctick
#check @Pipeline.doc_total_tabs_of_single
#print axioms Pipeline.doc_total_tabs_of_single
#check @Pipeline.doc_total_tabs_of_single_noesc
#print axioms Pipeline.doc_total_tabs_of_single_noesc
#check @Pipeline.doc_total_coherent_tabs
#print axioms Pipeline.doc_total_coherent_tabs
#check @Pipeline.doc_total_noesctick_all
#print axioms Pipeline.doc_total_noesctick_all
#check @Pipeline.doc_total_stock_every
#print axioms Pipeline.doc_total_stock_every
#check @Pipeline.doc_total_stock_tabs
#print axioms Pipeline.doc_total_stock_tabs
#check @Pipeline.no_inline_panic_tabs
#print axioms Pipeline.no_inline_panic_tabs
#check @Pipeline.doc_crlf_invariant_tabs
#print axioms Pipeline.doc_crlf_invariant_tabs
#check @Pipeline.doc_crlf_invariant_sp_tabs
#print axioms Pipeline.doc_crlf_invariant_sp_tabs
#check @Pipeline.doc_crlf_invariant_every
#print axioms Pipeline.doc_crlf_invariant_every
#check @Pipeline.doc_crlf_invariant_stock
#print axioms Pipeline.doc_crlf_invariant_stock
#check @Inline.solidMarkers_of_coherent
#print axioms Inline.solidMarkers_of_coherent
#check @Inline.parseInline_total_mapT_chain
#print axioms Inline.parseInline_total_mapT_chain
#check @Inline.solidMarkers_needed
#print axioms Inline.solidMarkers_needed
#check @Pipeline.doc_total_coherent_tabs_chain
#print axioms Pipeline.doc_total_coherent_tabs_chain
