import MdIt.Props.C12Doc

open MdIt MdIt.Pipeline

#check @escape_roundtrip_doc
#check @escape_roundtrip_doc_blanks
#check @reference_in_paragraph
#check @reference_in_fence_info
#check @Inline.C12.parseInline_escaped
#check @Inline.C12.tokLoop_escaped
#check @Inline.C12.parseInline_aRb
#check @Block.C12.parseBlocks_one_line
#check @Block.C12.parseBlocks_fence_line
#check @Entity.Denotes.unescape

#print axioms escape_roundtrip_doc
#print axioms escape_roundtrip_doc_blanks
#print axioms reference_in_paragraph
#print axioms reference_in_fence_info
#print axioms Inline.C12.parseInline_escaped
#print axioms Inline.C12.tokLoop_escaped
#print axioms Inline.C12.parseInline_aRb
#print axioms Block.C12.parseBlocks_one_line
#print axioms Block.C12.parseBlocks_fence_line
#print axioms Entity.Denotes.unescape
