import MdIt.Props.C12Doc

open MdIt MdIt.Pipeline

#check @escape_roundtrip_doc
#check @escape_roundtrip_doc_blanks
#check @Inline.parseInline_escaped
#check @Inline.tokLoop_escaped
#check @Block.parseBlocks_one_line

#print axioms escape_roundtrip_doc
#print axioms escape_roundtrip_doc_blanks
#print axioms Inline.parseInline_escaped
#print axioms Inline.tokLoop_escaped
#print axioms Block.parseBlocks_one_line
