import MdIt.Props.C05Tabs

#check @MdIt.Pipeline.doc_ranges_ordered_all
#check @MdIt.Pipeline.doc_child_within_all
#check @MdIt.Pipeline.doc_boundaries_all
#check @MdIt.Pipeline.doc_ranges_ok_all
#check @MdIt.Pipeline.doc_text_faithful_all
#check @MdIt.Pipeline.doc_special_markup_all
#check @MdIt.Pipeline.afterBlocks_postBd
#check @MdIt.Pipeline.afterBlocks_nodeOkX
#check @MdIt.Block.inlSpec2_ptabs
#check @MdIt.Block.inlSpec3_ptabsF
#check @MdIt.C05T.mapT_of_virt
#check @MdIt.C05T.pinl_of_mapT
#check @MdIt.C05T.parseInline_bd
#check @MdIt.C05T.bdEmphOK
#check @MdIt.C05T.parseInline_fthV
#check @MdIt.C05T.emphOKV
#check @MdIt.C05T.codeCloserOK
#check @MdIt.C05T.linkCloserOK

#print axioms MdIt.Pipeline.doc_ranges_ordered_all
#print axioms MdIt.Pipeline.doc_child_within_all
#print axioms MdIt.Pipeline.doc_boundaries_all
#print axioms MdIt.Pipeline.doc_ranges_ok_all
#print axioms MdIt.Pipeline.doc_text_faithful_all
#print axioms MdIt.Pipeline.doc_special_markup_all
#print axioms MdIt.Pipeline.afterBlocks_postBd
#print axioms MdIt.Pipeline.afterBlocks_nodeOkX
#print axioms MdIt.Block.inlSpec2_ptabs
#print axioms MdIt.Block.inlSpec3_ptabsF
#print axioms MdIt.C05T.mapT_of_virt
#print axioms MdIt.C05T.pinl_of_mapT
#print axioms MdIt.C05T.parseInline_bd
#print axioms MdIt.C05T.bdEmphOK
#print axioms MdIt.C05T.parseInline_fthV
#print axioms MdIt.C05T.emphOKV
#print axioms MdIt.C05T.codeCloserOK
#print axioms MdIt.C05T.linkCloserOK
