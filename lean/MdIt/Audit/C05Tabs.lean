import MdIt.Props.C05Tabs

#check @MdIt.Pipeline.doc_ranges_ordered_all
#check @MdIt.Pipeline.doc_child_within_all
#check @MdIt.Pipeline.doc_boundaries_all
#check @MdIt.C05T.parseInline_bd
#check @MdIt.Block.inlSpec3_ptabsF
#check @MdIt.Pipeline.afterBlocks_postBd
#check @MdIt.C05T.pinl_of_mapT
#check @MdIt.C05T.mapT_of_virt
#check @MdIt.Block.inlSpec2_ptabs

#print axioms MdIt.Pipeline.doc_ranges_ordered_all
#print axioms MdIt.Pipeline.doc_child_within_all
#print axioms MdIt.Pipeline.doc_boundaries_all
#print axioms MdIt.C05T.parseInline_bd
#print axioms MdIt.Block.inlSpec3_ptabsF
#print axioms MdIt.Pipeline.afterBlocks_postBd
#print axioms MdIt.C05T.pinl_of_mapT
#print axioms MdIt.C05T.mapT_of_virt
#print axioms MdIt.Block.inlSpec2_ptabs
