import MdIt.Props.C17Set

#check @MdIt.Url.setHas_setRemove
#check @MdIt.Url.setOps_spec
#check @MdIt.Url.setRemove_absent

#print axioms MdIt.Url.setHas_setRemove
#print axioms MdIt.Url.setOps_spec
#print axioms MdIt.Url.setRemove_absent
