import MdIt.Props.GenC17
open MdIt.Url
#check @gen_asciiNew
#check @gen_digits
#check @gen_keep
#check @gen_safeChars
#check @gen_safeChars_link
#print axioms gen_asciiNew
#print axioms gen_digits
#print axioms gen_keep
#print axioms gen_safeChars
#print axioms gen_safeChars_link
