import MdIt.Props.MemoSafe
open MdIt.Inline

#check @lookahead_guard_free
#check @skip_guard_free
#check @parseLink_guard_free
#check @skip_grow
#check @parseLink_guard_grow
#check @labelLoop_replay
#check @labelLoop_records
#check @pwalk_mono
#check @pwalk_path
#check @pwalk_shrink_found
#check @pwalk_frame
#check @pwalk_level_le
#check @parseLink_records
#check @parseLink_path
#check @parseLink_frame_replay
#check @nested_walk_replay
#check @closed_of_path
#check @parseLink_entry_closed
#check @frame_entry_closed_of_laminar
#check @laminarB_iff
#check @laminar_needs_coherence

#print axioms lookahead_guard_free
#print axioms skip_guard_free
#print axioms parseLink_guard_free
#print axioms skip_grow
#print axioms parseLink_guard_grow
#print axioms labelLoop_replay
#print axioms labelLoop_records
#print axioms pwalk_mono
#print axioms pwalk_path
#print axioms pwalk_shrink_found
#print axioms pwalk_frame
#print axioms pwalk_level_le
#print axioms parseLink_records
#print axioms parseLink_path
#print axioms parseLink_frame_replay
#print axioms nested_walk_replay
#print axioms closed_of_path
#print axioms parseLink_entry_closed
#print axioms frame_entry_closed_of_laminar
#print axioms laminarB_iff
#print axioms laminar_needs_coherence
