import MdIt.Props.MemoSafe
open MdIt.Inline MdIt.Pipeline

#check @lookahead_guard_free
#check @skip_guard_free
#check @parseLink_guard_free
#check @skip_grow
#check @parseLink_guard_grow
#check @skip_entry_free
#check @entry_total
#check @parseInlineE_ok
#check @entrySafe_memoSafe
#check @parseInline_total_of_entrySafe
#check @parseInline_total_of_entrySafe_coherent
#check @closedB_iff
#check @labelLoop_replay
#check @labelLoop_records
#check @pwalk_mono
#check @pwalk_path
#check @pwalk_shrink_found
#check @pwalk_frame
#check @pwalk_level_le
#check @pwalk_fuel
#check @parseLink_records
#check @parseLink_path
#check @parseLink_frame_replay
#check @nested_walk_replay
#check @closed_of_path
#check @parseLink_entry_closed
#check @frame_entry_closed_of_laminar
#check @laminarB_iff
#check @laminar_needs_coherence
#check @ruleText_window
#check @ruleNewline_window
#check @ruleEscape_window
#check @ruleAutolink_window
#check @ruleEntity_window
#check @ruleBackticks_window
#check @runRule_flat_window
#check @parseInlineTail_window
#check @decOk_unescapeAll
#check @silent_declines
#check @chain_declines_at_marker
#check @skipStep_unit_at_marker
#check @skipStep_records_link
#check @parseLinkLabel_replay
#check @parseLink_replay_inline
#check @skip_top
#check @tokStep_top
#check @top_total
#check @parseInlineG_eq
#check @parseInline_total_of_nested
#check @entryP_NF
#check @flat_L2
#check @real_silent_verdict
#check @real_declines
#check @emph_real_L2
#check @back_L2
#check @back_L2_none
#check @parseLinkL2_link
#check @parseLinkL2Part_link
#check @witness_summary
#check @walk_below_bracket
#check @just_unit_at_closer
#check @just_at_bracket
#check @outer_step
#check @pwalk_below
#check @pwalk_through
#check @pwalk_shrink
#check @pwalk_det
#check @pwalk_en
#check @labelLoop_hits
#check @parseLinkLabel_hits
#check @parseLink_hits
#check @nested_eq
#check @chain_L2
#check @over_limit
#check @parseInline_total_link
#check @parseInline_total_of_nestHyps
#check @parseInline_total_coherent_link
#check @nestHyps_of
#check @parseLinkL2_core
#check @just_link_call
#check @parseLinkL2_image
#check @parseLinkL2Part_image
#check @parseInline_total_nocode
#check @parseInline_total_coherent_nocode
#check @backL2_of_noDouble
#check @parseInline_total_nodouble
#check @parseInline_total_coherent_nodouble
#check @doc_tables_mapOK
#check @doc_total_nocode
#check @doc_total_nodouble
#check @docNoDoubleTick_of_check
#check @noDoubleTick_of_pfth
#check @docNoDoubleTick_of_src
#check @doc_total_src
#check @doc_total_stock
#check @insideFull_ruleBackticks
#check @back_decline_marks
#check @text_end_not_inside
#check @newline_end_not_inside
#check @autolink_end_not_inside
#check @entity_end_not_inside
#check @backticks_end_not_inside
#check @escape_end_inside_iff
#check @CS.endHyp_holds
#check @CS.marksHyp_holds
#check @CS.backL2_holds
#check @CS.agreeHyp_holds
#check @CS.rule_end_not_interior
#check @CS.linkRule_closedAt
#check @CS.skip_top
#check @CS.top_total
#check @CS.parseInline_total_of_nested
#check @CS.nested_eq
#check @CS.nocut_init
#check @CS.entryP_NF
#check @CS.nestHyps_noesc
#check @CS.parseInline_total_noesc
#check @parseInline_total_noesctick
#check @noEscTickTick_of_pfth
#check @docNoEscTickTick_of_src
#check @doc_total_noesctick
#check @doc_total_src_noesc
#check @doc_total_stock_nodouble

#print axioms lookahead_guard_free
#print axioms skip_guard_free
#print axioms parseLink_guard_free
#print axioms skip_grow
#print axioms parseLink_guard_grow
#print axioms skip_entry_free
#print axioms entry_total
#print axioms parseInlineE_ok
#print axioms entrySafe_memoSafe
#print axioms parseInline_total_of_entrySafe
#print axioms parseInline_total_of_entrySafe_coherent
#print axioms closedB_iff
#print axioms labelLoop_replay
#print axioms labelLoop_records
#print axioms pwalk_mono
#print axioms pwalk_path
#print axioms pwalk_shrink_found
#print axioms pwalk_frame
#print axioms pwalk_level_le
#print axioms pwalk_fuel
#print axioms parseLink_records
#print axioms parseLink_path
#print axioms parseLink_frame_replay
#print axioms nested_walk_replay
#print axioms closed_of_path
#print axioms parseLink_entry_closed
#print axioms frame_entry_closed_of_laminar
#print axioms laminarB_iff
#print axioms laminar_needs_coherence
#print axioms ruleText_window
#print axioms ruleNewline_window
#print axioms ruleEscape_window
#print axioms ruleAutolink_window
#print axioms ruleEntity_window
#print axioms ruleBackticks_window
#print axioms runRule_flat_window
#print axioms parseInlineTail_window
#print axioms decOk_unescapeAll
#print axioms silent_declines
#print axioms chain_declines_at_marker
#print axioms skipStep_unit_at_marker
#print axioms skipStep_records_link
#print axioms parseLinkLabel_replay
#print axioms parseLink_replay_inline
#print axioms skip_top
#print axioms tokStep_top
#print axioms top_total
#print axioms parseInlineG_eq
#print axioms parseInline_total_of_nested
#print axioms entryP_NF
#print axioms flat_L2
#print axioms real_silent_verdict
#print axioms real_declines
#print axioms emph_real_L2
#print axioms back_L2
#print axioms back_L2_none
#print axioms parseLinkL2_link
#print axioms parseLinkL2Part_link
#print axioms witness_summary
#print axioms walk_below_bracket
#print axioms just_unit_at_closer
#print axioms just_at_bracket
#print axioms outer_step
#print axioms pwalk_below
#print axioms pwalk_through
#print axioms pwalk_shrink
#print axioms pwalk_det
#print axioms pwalk_en
#print axioms labelLoop_hits
#print axioms parseLinkLabel_hits
#print axioms parseLink_hits
#print axioms nested_eq
#print axioms chain_L2
#print axioms over_limit
#print axioms parseInline_total_link
#print axioms parseInline_total_of_nestHyps
#print axioms parseInline_total_coherent_link
#print axioms nestHyps_of
#print axioms parseLinkL2_core
#print axioms just_link_call
#print axioms parseLinkL2_image
#print axioms parseLinkL2Part_image
#print axioms parseInline_total_nocode
#print axioms parseInline_total_coherent_nocode
#print axioms backL2_of_noDouble
#print axioms parseInline_total_nodouble
#print axioms parseInline_total_coherent_nodouble
#print axioms doc_tables_mapOK
#print axioms doc_total_nocode
#print axioms doc_total_nodouble
#print axioms docNoDoubleTick_of_check
#print axioms noDoubleTick_of_pfth
#print axioms docNoDoubleTick_of_src
#print axioms doc_total_src
#print axioms doc_total_stock
#print axioms insideFull_ruleBackticks
#print axioms back_decline_marks
#print axioms text_end_not_inside
#print axioms newline_end_not_inside
#print axioms autolink_end_not_inside
#print axioms entity_end_not_inside
#print axioms backticks_end_not_inside
#print axioms escape_end_inside_iff
#print axioms CS.endHyp_holds
#print axioms CS.marksHyp_holds
#print axioms CS.backL2_holds
#print axioms CS.agreeHyp_holds
#print axioms CS.rule_end_not_interior
#print axioms CS.linkRule_closedAt
#print axioms CS.skip_top
#print axioms CS.top_total
#print axioms CS.parseInline_total_of_nested
#print axioms CS.nested_eq
#print axioms CS.nocut_init
#print axioms CS.entryP_NF
#print axioms CS.nestHyps_noesc
#print axioms CS.parseInline_total_noesc
#print axioms parseInline_total_noesctick
#print axioms noEscTickTick_of_pfth
#print axioms docNoEscTickTick_of_src
#print axioms doc_total_noesctick
#print axioms doc_total_src_noesc
#print axioms doc_total_stock_nodouble

-- FIFTH PART (the escape landing: no hypothesis on the text)
#check @parseInline_total
#check @memoSafe_of_coherent
#check @parseInline_total_stock
#check @doc_total_coherent_all
#check @doc_total_src_all
#check @doc_total_stock_notab
#print axioms ES.endHyp_holds
#print axioms ES.endEP_holds
#print axioms ES.stepEP_holds
#print axioms ES.backOK_BE
#print axioms ES.landHyp_holds
#print axioms ES.top_total
#print axioms ES.nested_eq
#print axioms ES.entryP_NF
#print axioms ES.nestHyps_all
#print axioms ES.epc_init
#print axioms ES.parseInlineG_eq_all
#print axioms ES.parseInline_total
#print axioms parseInline_total
#print axioms memoSafe_of_coherent
#print axioms parseInline_total_stock
#print axioms doc_total_coherent
#print axioms doc_total_coherent_src
#print axioms doc_total_stock_all
#print axioms doc_total_coherent_all
#print axioms doc_total_src_all
#print axioms doc_total_stock_notab
