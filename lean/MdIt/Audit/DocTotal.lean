import MdIt.Props.DocTotal
open MdIt.Pipeline
#check @doc_cr_invariant_full
#check @doc_final_newline_invariant_full
#check @doc_crlf_invariant_full
#check @parseDoc_panic_inline_only
#check @renderDoc_panic_inline_only
#check @parseDoc_blocks_ok
#print axioms doc_cr_invariant_full
#print axioms doc_final_newline_invariant_full
#print axioms doc_crlf_invariant_full
#print axioms parseDoc_panic_inline_only
#print axioms renderDoc_panic_inline_only
#print axioms parseDoc_blocks_ok
