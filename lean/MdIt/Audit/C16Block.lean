import MdIt.Props.C16Block
open MdIt.BlockH.C16

#check @block_lookahead_quiet_run
#check @block_lookahead_quiet_run_shipped
#check @honoured_of_sweep
#check @paragraph_end_is_real_start
#check @paragraph_end_is_real_start_run
#check @preempting_rule
#check @custom_rule_invoked_at_claimed_line
#check @custom_rule_invoked_first
#check @engH_ok
#check @engX_ok
#check @runRuleH_silent_congr
#check @runRuleH_silent_indep
#check @lazyScan_stop
#check @tokLoopG_succ
#check @reach_quote_called
#check @frameTrace_reach

#print axioms block_lookahead_quiet_run
#print axioms block_lookahead_quiet_run_shipped
#print axioms honoured_of_sweep
#print axioms paragraph_end_is_real_start
#print axioms paragraph_end_is_real_start_run
#print axioms preempting_rule
#print axioms custom_rule_invoked_at_claimed_line
#print axioms custom_rule_invoked_first
#print axioms engH_ok
#print axioms engX_ok
#print axioms runRuleH_silent_congr
#print axioms runRuleH_silent_indep
#print axioms lazyScan_stop
#print axioms tokLoopG_succ
#print axioms reach_quote_called
#print axioms frameTrace_reach

-- second session (appended)
#check @lazyScan_false_of_true
#check @lheading_declines_at_sweep_stop
#check @reference_ok
#check @reference_end_is_real_start
#check @lheading_end_is_real_start
#check @runRuleH_silent_congr2
#check @listLoop_exit
#check @listRule_ok
#check @list_end_is_real_start
#check @list_end_is_real_start_shipped
#check @custom_rule_after_list
#check @engH_ok2
#check @engX_ok2

#print axioms lazyScan_false_of_true
#print axioms lheading_declines_at_sweep_stop
#print axioms reference_ok
#print axioms reference_end_is_real_start
#print axioms lheading_end_is_real_start
#print axioms runRuleH_silent_congr2
#print axioms listLoop_exit
#print axioms listRule_ok
#print axioms list_end_is_real_start
#print axioms list_end_is_real_start_shipped
#print axioms custom_rule_after_list
#print axioms engH_ok2
#print axioms engX_ok2

-- third session (appended)
#check @runRuleH_silent_congr3
#check @engH_ok3
#check @engX_ok3
#check @bqScan_exit
#check @blockquote_scans
#check @quote_end_is_real_start
#check @quote_end_is_real_start_shipped
#check @custom_rule_after_quote

#print axioms runRuleH_silent_congr3
#print axioms engH_ok3
#print axioms engX_ok3
#print axioms bqScan_exit
#print axioms blockquote_scans
#print axioms quote_end_is_real_start
#print axioms quote_end_is_real_start_shipped
#print axioms custom_rule_after_quote
