import MdIt.Props.C08
open MdIt.ParserState
#check @add_resets
#check @remove_resets
#check @config_op_frame
#check @parseEff_spec
#check @next_coherent
#check @coherent_reachable
#check @history_parse_spec
#check @nonconfig_irrelevant
#check @parses_irrelevant
#check @observations_irrelevant
#check @removed_never_fires
#check @added_in_chain
#check @added_marker_stops
#check @added_fires
#check @chooseTextImpl_regex
#check @parse_total
#check @debugFmt_total
#check @pinned_removed_rule_still_fires
#check @pinned_removed_rule_reference
#check @pinned_added_rule_never_fires
#check @pinned_added_rule_reference
#check @pinned_violates_parses_irrelevant_remove
#check @pinned_violates_parses_irrelevant_add
#check @pinned_not_coherent
#check @pinned_debug_panics
#print axioms add_resets
#print axioms remove_resets
#print axioms config_op_frame
#print axioms parseEff_spec
#print axioms next_coherent
#print axioms coherent_reachable
#print axioms history_parse_spec
#print axioms nonconfig_irrelevant
#print axioms parses_irrelevant
#print axioms observations_irrelevant
#print axioms removed_never_fires
#print axioms added_in_chain
#print axioms added_marker_stops
#print axioms added_fires
#print axioms chooseTextImpl_regex
#print axioms parse_total
#print axioms debugFmt_total
#print axioms pinned_removed_rule_still_fires
#print axioms pinned_removed_rule_reference
#print axioms pinned_added_rule_never_fires
#print axioms pinned_added_rule_reference
#print axioms pinned_violates_parses_irrelevant_remove
#print axioms pinned_violates_parses_irrelevant_add
#print axioms pinned_not_coherent
#print axioms pinned_debug_panics
