import MdIt.Props.C05Rest

#check @MdIt.Pipeline.doc_ranges_ok
#check @MdIt.Pipeline.doc_ranges_ok_tabFree
#check @MdIt.Pipeline.doc_boundaries
#check @MdIt.Pipeline.doc_text_faithful
#check @MdIt.Pipeline.doc_special_markup
#check @MdIt.Pipeline.doc_ord_post
#check @MdIt.Pipeline.noSplitTab_of_tabFree
#check @MdIt.Pipeline.noSplitTab_of_check
#check @MdIt.Pipeline.ranges_ordered_exTab
#check @MdIt.Pipeline.afterBlocks_postOk
#check @MdIt.Block.parseBlocks_geo3
#check @MdIt.Block.inlSpec3_pfull
#check @MdIt.Block.inlSpec3_pfullV
#check @MdIt.C05R.fa_getLines_pfth_nv
#check @MdIt.C05R.parseInline_fth
#check @MdIt.C05R.emphOK

#print axioms MdIt.Pipeline.doc_ranges_ok
#print axioms MdIt.Pipeline.doc_ranges_ok_tabFree
#print axioms MdIt.Pipeline.doc_boundaries
#print axioms MdIt.Pipeline.doc_text_faithful
#print axioms MdIt.Pipeline.doc_special_markup
#print axioms MdIt.Pipeline.doc_ord_post
#print axioms MdIt.Pipeline.noSplitTab_of_tabFree
#print axioms MdIt.Pipeline.noSplitTab_of_check
#print axioms MdIt.Pipeline.ranges_ordered_exTab
#print axioms MdIt.Pipeline.afterBlocks_postOk
#print axioms MdIt.Block.parseBlocks_geo3
#print axioms MdIt.Block.inlSpec3_pfull
#print axioms MdIt.Block.inlSpec3_pfullV
#print axioms MdIt.C05R.fa_getLines_pfth_nv
#print axioms MdIt.C05R.parseInline_fth
#print axioms MdIt.C05R.emphOK
