import MdIt.Props.C11Span
open MdIt.C11N

#check @MdIt.C11S.parseInline_span
#check @MdIt.Block.parseBlocks_line
#check @MdIt.Block.tokenize_line_tight
#check @doc_span_verbatim_sp
#check @doc_span_verbatim
#check @doc_span_render_sp
#check @doc_span_render
#check @doc_span_verbatim_nested_sp
#check @doc_span_verbatim_nested
#check @doc_span_render_nested_sp
#check @doc_span_render_nested

#print axioms MdIt.C11S.parseInline_span
#print axioms MdIt.Block.parseBlocks_line
#print axioms MdIt.Block.tokenize_line_tight
#print axioms doc_span_verbatim_sp
#print axioms doc_span_verbatim
#print axioms doc_span_render_sp
#print axioms doc_span_render
#print axioms doc_span_verbatim_nested_sp
#print axioms doc_span_verbatim_nested
#print axioms doc_span_render_nested_sp
#print axioms doc_span_render_nested
