import MdIt.Props.C06ListBlank
#check @MdIt.Block.Li.tokLoop_sim_any
#check @MdIt.Block.Li.tokenize_sim_any
#check @MdIt.Block.Li.itemRewrite_first_blank
#check @MdIt.Block.Li.second_not_empty
#check @MdIt.Block.Li.first_rewrite
#check @MdIt.Block.Li.list_on_prefixed2
#check @MdIt.Block.Li.item_commutes_gen2
#check @MdIt.Block.Li.item_commutes_gen2_parse
#check @MdIt.Block.Li.hrLook_blank
#check @MdIt.Block.Li.item_commutes_blank
#check @MdIt.Block.Li.item_commutes_blank_bullet
#check @MdIt.Block.Li.item_commutes_blank_ordered
#print axioms MdIt.Block.Li.tokLoop_sim_any
#print axioms MdIt.Block.Li.tokenize_sim_any
#print axioms MdIt.Block.Li.itemRewrite_first_blank
#print axioms MdIt.Block.Li.second_not_empty
#print axioms MdIt.Block.Li.first_rewrite
#print axioms MdIt.Block.Li.list_on_prefixed2
#print axioms MdIt.Block.Li.item_commutes_gen2
#print axioms MdIt.Block.Li.item_commutes_gen2_parse
#print axioms MdIt.Block.Li.hrLook_blank
#print axioms MdIt.Block.Li.item_commutes_blank
#print axioms MdIt.Block.Li.item_commutes_blank_bullet
#print axioms MdIt.Block.Li.item_commutes_blank_ordered
