import MdIt.Props.EmphDepth
open MdIt.Inline MdIt.EmphDepth
#check @matchInner_q
#check @matchOuter_q
#check @scanAndMatch_q
#check @ruleEmph_q
#check @depth_induction
#check @parseInline_q
#check @goodQ_QW
#check @goodQ_QA
#check @goodQ_QT
#check @matchOuter_depth
#check @scanAndMatch_depth
#check @ruleEmph_depth
#check @tokenize_depth
#check @parseInline_depth
#check @inline_emph_depth_bounded
#check @baseBound_closed
#check @depthBound_closed
#check @inline_tree_depth_bounded
#check @tokenize_tree_depth
#check @Meas.joinNodeN_le
#check @Meas.finish_le
#check @finish_depth_bounded
#print axioms matchInner_q
#print axioms matchOuter_q
#print axioms scanAndMatch_q
#print axioms ruleEmph_q
#print axioms depth_induction
#print axioms parseInline_q
#print axioms goodQ_QW
#print axioms goodQ_QA
#print axioms goodQ_QT
#print axioms matchOuter_depth
#print axioms scanAndMatch_depth
#print axioms ruleEmph_depth
#print axioms tokenize_depth
#print axioms parseInline_depth
#print axioms inline_emph_depth_bounded
#print axioms baseBound_closed
#print axioms depthBound_closed
#print axioms inline_tree_depth_bounded
#print axioms tokenize_tree_depth
#print axioms Meas.joinNodeN_le
#print axioms Meas.finish_le
#print axioms finish_depth_bounded
