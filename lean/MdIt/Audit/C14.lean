import MdIt.Props.C14
open MdIt.C14 MdIt.Join
#check @join_normal_form
#check @join_content
#check @joinAll_normal_form
#check @push_no_adjacent
#check @pop_no_adjacent
#check @splice_removes_inlineroot
#check @spliceLoop_eq
#check @walkNode_eq_loop
#check @mergeIdx_eq
#check @fragmentsJoin_eq
#print axioms join_normal_form
#print axioms join_content
#print axioms joinAll_normal_form
#print axioms push_no_adjacent
#print axioms pop_no_adjacent
#print axioms splice_removes_inlineroot
#print axioms spliceLoop_eq
#print axioms walkNode_eq_loop
#print axioms mergeIdx_eq
#print axioms fragmentsJoin_eq
