import MdIt.Props.C12
open MdIt.Entity
#check @named_agree
#check @numeric_agree
#check @escape_agree
#check @escape_literal_agree
#check @escape_newline
#check @named_inline
#check @numeric_inline
#check @escape_inline
#check @named_agree_at
#check @numeric_agree_at
#check @escape_agree_at
#check @unescapeScan_named
#check @unescapeScan_numeric
#check @unescapeScan_escape
#check @numeric_parse_total
#check @valid_code_is_scalar
#check @codeToChars_valid
#check @unescapeAllE_total
#check @tokenizeTEE_total
#check @matchUnescapeAllRe_prefix
#check @runThenSemi_ok
#check @runThenSemi_sound
#check @runThenSemi_too_long
#check @escapable_is_ascii_punct
#check @escapable_eq_unescapeClass
#check @escapable_length
#check @stopset_subset_punct
#check @entity_names_fit_syntax
#check @table_rows
#check @table_no_hash
#check @table_sorted
#check @table_lookup_complete
#check @table_named_agree
#check @table_numeric_agree
#check @escape_roundtrip
#check @escape_roundtrip_TE
#print axioms named_agree
#print axioms numeric_agree
#print axioms escape_agree
#print axioms escape_literal_agree
#print axioms escape_newline
#print axioms named_inline
#print axioms numeric_inline
#print axioms escape_inline
#print axioms named_agree_at
#print axioms numeric_agree_at
#print axioms escape_agree_at
#print axioms unescapeScan_named
#print axioms unescapeScan_numeric
#print axioms unescapeScan_escape
#print axioms numeric_parse_total
#print axioms valid_code_is_scalar
#print axioms codeToChars_valid
#print axioms unescapeAllE_total
#print axioms tokenizeTEE_total
#print axioms matchUnescapeAllRe_prefix
#print axioms runThenSemi_ok
#print axioms runThenSemi_sound
#print axioms runThenSemi_too_long
#print axioms escapable_is_ascii_punct
#print axioms escapable_eq_unescapeClass
#print axioms escapable_length
#print axioms stopset_subset_punct
#print axioms entity_names_fit_syntax
#print axioms table_rows
#print axioms table_no_hash
#print axioms table_sorted
#print axioms table_lookup_complete
#print axioms table_named_agree
#print axioms table_numeric_agree
#print axioms escape_roundtrip
#print axioms escape_roundtrip_TE
