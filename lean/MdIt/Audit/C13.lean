import MdIt.Props.C13
open MdIt.Refs
#check @isWs_table
#check @collapseWs_ws
#check @collapseWs_nonws
#check @wsNorm_lead
#check @wsNorm_trail
#check @wsNorm_run
#check @norm_ws_invariant
#check @wsNorm_eq_iff
#check @wsNorm_idem
#check @norm_flatMap
#check @norm_case_invariant_lower
#check @norm_case_invariant_upper
#check @norm_case_invariant_mixed
#check @normalize_idem
#check @sigma_irrelevant
#check @norm_sigma
#check @tableMap_forall
#check @table_compat_lower
#check @table_compat_upper
#check @table_closure_lower
#check @table_closure_upper
#check @table_closure
#check @table_sigma
#check @table_sigma_irrelevant
#check @table_norm_sigma
#check @table_norm_case_invariant
#check @table_normalize_idem
#check @first_wins_raw
#check @first_wins
#check @resolves_iff
#check @later_defs_irrelevant
#check @empty_label_rejected
#check @selectLabel_spec
#check @resolve_forms
#check @table_first_wins
#check @table_resolves_iff
#check @table_resolves_variant
#print axioms isWs_table
#print axioms collapseWs_ws
#print axioms collapseWs_nonws
#print axioms wsNorm_lead
#print axioms wsNorm_trail
#print axioms wsNorm_run
#print axioms norm_ws_invariant
#print axioms wsNorm_eq_iff
#print axioms wsNorm_idem
#print axioms norm_flatMap
#print axioms norm_case_invariant_lower
#print axioms norm_case_invariant_upper
#print axioms norm_case_invariant_mixed
#print axioms normalize_idem
#print axioms sigma_irrelevant
#print axioms norm_sigma
#print axioms tableMap_forall
#print axioms table_compat_lower
#print axioms table_compat_upper
#print axioms table_closure_lower
#print axioms table_closure_upper
#print axioms table_closure
#print axioms table_sigma
#print axioms table_sigma_irrelevant
#print axioms table_norm_sigma
#print axioms table_norm_case_invariant
#print axioms table_normalize_idem
#print axioms first_wins_raw
#print axioms first_wins
#print axioms resolves_iff
#print axioms later_defs_irrelevant
#print axioms empty_label_rejected
#print axioms selectLabel_spec
#print axioms resolve_forms
#print axioms table_first_wins
#print axioms table_resolves_iff
#print axioms table_resolves_variant
