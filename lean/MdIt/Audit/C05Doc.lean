import MdIt.Props.C05Doc

#check @MdIt.Pipeline.doc_root_range
#check @MdIt.Pipeline.doc_block_skeleton
#check @MdIt.Pipeline.doc_block_ranges
#check @MdIt.Pipeline.rangesOk_bskel
#check @MdIt.Block.parseBlocks_geo

#print axioms MdIt.Pipeline.doc_root_range
#print axioms MdIt.Pipeline.doc_block_skeleton
#print axioms MdIt.Pipeline.doc_block_ranges
#print axioms MdIt.Pipeline.rangesOk_bskel
#print axioms MdIt.Block.parseBlocks_geo
