import MdIt.Props.Block
open MdIt.Block
-- silent mode is pure
#check @silent_pure_hr
#check @silent_pure_heading
#check @silent_pure_code
#check @silent_pure_fence
#check @silent_pure_paragraph
#check @silent_pure_lheading
#check @silent_pure_reference
#check @silent_pure_blockquote
#check @silent_pure_list
#check @silent_pure_rule
#check @testRules_pure
-- silent true ⇒ real true
#check @silent_implies_real_hr
#check @silent_implies_real_heading
#check @silent_implies_real_fence
#check @silent_implies_real_blockquote
#check @silent_implies_real_list
#check @silent_implies_real_rule
-- a rule answering false leaves the state alone
#check @real_false_same_hr
#check @real_false_same_heading
#check @real_false_same_code
#check @real_false_same_fence
#check @real_false_same_blockquote
#check @real_false_same_list
#check @real_false_same_lheading
#check @real_false_same_reference
#check @real_true_paragraph
-- progress
#check @block_rule_progress_hr
#check @block_rule_progress_heading
#check @block_rule_progress_code
#check @block_rule_progress_fence
#check @block_rule_progress_paragraph
#check @block_rule_progress_lheading
#check @block_rule_progress_reference
#check @block_rule_progress_blockquote
#check @block_rule_progress_list
#check @blockquote_advanced
#check @list_advanced
#check @reference_advanced
#check @bqScan_spec
#check @refParse_lines
#check @tableOk_fresh
#check @tokenize_spec
#check @tokenize_progress
#check @tokenize_tokSpec
#check @ruleAt_progress
#check @ruleAt_false_same
-- C11, C14
#check @fence_verbatim
#check @indented_verbatim
#check @fenceScan_verbatim
#check @codeScan_verbatim
#check @viewPiece_zero
#check @viewPiece_four
#check @docOf_shows
#check @list_shape
#check @tokenize_shape
#check @markTight_good
#check @tightenItems_items
#check @Shaped.list_children
#check @Shaped.item_parent
-- fuel, exit
#check @lazyScan_mono
#check @bqScan_mono
#check @listLoop_mono
#check @runRule_mono
#check @engine_mono
#check @tokenize_mono
#check @tokLoop_exit
#check @tokenize_exit
#print axioms silent_pure_hr
#print axioms silent_pure_heading
#print axioms silent_pure_code
#print axioms silent_pure_fence
#print axioms silent_pure_paragraph
#print axioms silent_pure_lheading
#print axioms silent_pure_reference
#print axioms silent_pure_blockquote
#print axioms silent_pure_list
#print axioms silent_pure_rule
#print axioms testRules_pure
#print axioms silent_implies_real_hr
#print axioms silent_implies_real_heading
#print axioms silent_implies_real_fence
#print axioms silent_implies_real_blockquote
#print axioms silent_implies_real_list
#print axioms silent_implies_real_rule
#print axioms real_false_same_hr
#print axioms real_false_same_heading
#print axioms real_false_same_code
#print axioms real_false_same_fence
#print axioms real_false_same_blockquote
#print axioms real_false_same_list
#print axioms real_false_same_lheading
#print axioms real_false_same_reference
#print axioms real_true_paragraph
#print axioms block_rule_progress_hr
#print axioms block_rule_progress_heading
#print axioms block_rule_progress_code
#print axioms block_rule_progress_fence
#print axioms block_rule_progress_paragraph
#print axioms block_rule_progress_lheading
#print axioms block_rule_progress_reference
#print axioms block_rule_progress_blockquote
#print axioms block_rule_progress_list
#print axioms blockquote_advanced
#print axioms list_advanced
#print axioms reference_advanced
#print axioms bqScan_spec
#print axioms refParse_lines
#print axioms tableOk_fresh
#print axioms tokenize_spec
#print axioms tokenize_progress
#print axioms tokenize_tokSpec
#print axioms ruleAt_progress
#print axioms ruleAt_false_same
#print axioms fence_verbatim
#print axioms indented_verbatim
#print axioms fenceScan_verbatim
#print axioms codeScan_verbatim
#print axioms viewPiece_zero
#print axioms viewPiece_four
#print axioms docOf_shows
#print axioms list_shape
#print axioms tokenize_shape
#print axioms markTight_good
#print axioms tightenItems_items
#print axioms Shaped.list_children
#print axioms Shaped.item_parent
#print axioms lazyScan_mono
#print axioms bqScan_mono
#print axioms listLoop_mono
#print axioms runRule_mono
#print axioms engine_mono
#print axioms tokenize_mono
#print axioms tokLoop_exit
#print axioms tokenize_exit
