import MdIt.Props.C02Doc
open MdIt MdIt.Pipeline
#check @doc_block_depth
#check @doc_inline_depth
#check @doc_depth_bounded
#check @doc_depth_bounded'
#check @block_recursion_bounded
#check @inline_recursion_bounded
#check @Block.block_call_depth
#check @Inline.inline_call_depth
#check @Block.parseBlocks_depth
#check @Block.tokenize_depth
#check @Inline.parseInline_depth
#check @Inline.depth_induction
#check @parseDoc_wdepth
#check @joinNode_wdepth
#check @depth_tight_2
#check @depth_tight_3
#check @emph_exceeds
#check @recursion_tight
#print axioms doc_block_depth
#print axioms doc_inline_depth
#print axioms doc_depth_bounded
#print axioms doc_depth_bounded'
#print axioms block_recursion_bounded
#print axioms inline_recursion_bounded
#print axioms Block.block_call_depth
#print axioms Inline.inline_call_depth
#print axioms Block.parseBlocks_depth
#print axioms Block.tokenize_depth
#print axioms Inline.parseInline_depth
#print axioms Inline.depth_induction
#print axioms parseDoc_wdepth
#print axioms joinNode_wdepth
#print axioms depth_tight_2
#print axioms depth_tight_3
#print axioms emph_exceeds
#print axioms recursion_tight
