import MdIt.Props.C04
open MdIt.Link
#check @linkSafe_eq
#check @utf8_bytes
#check @normalized_alphabet
#check @normalized_alphabet_chars
#check @preprocess_id
#check @validate_sound
#check @pipeline_safe
#check @pipeline_safe_ref
#check @pipeline_safe_autolink
#check @inlineHref_safe
#print axioms linkSafe_eq
#print axioms utf8_bytes
#print axioms normalized_alphabet
#print axioms normalized_alphabet_chars
#print axioms preprocess_id
#print axioms validate_sound
#print axioms pipeline_safe
#print axioms pipeline_safe_ref
#print axioms pipeline_safe_autolink
#print axioms inlineHref_safe
