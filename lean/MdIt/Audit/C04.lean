import MdIt.Props.C04
open MdIt.Link
#check @linkSafe_eq
#check @utf8_bytes
#check @normalized_alphabet
#check @normalized_alphabet_chars
#check @preprocess_id
#check @validate_sound
#check @validate_exact
#check @pipeline_safe
#check @pipeline_safe_ref
#check @pipeline_safe_autolink
#check @inlineHref_safe
#check @validate_rejects
#check @goodData_needs_data
#check @validate_rejects_spelling
#check @validate_rejects_data
#check @slice_ok_iff
#check @dest_total
#check @dest_panics_iff
#check @dest_spec
#check @dest_pos_bounds
#check @BareToks.no_space
#check @BareToks.no_ctrl
#check @BareToks.no_lf
#check @AngleToks.no_lf
#check @dest_no_ctrl
#check @dest_lines_zero_sound
#check @title_total
#check @title_panics_iff
#check @title_delims
#check @TitleToks.lines_eq
#check @title_lines_exact
#check @rejected_stays_literal
#check @tail_total
#print axioms linkSafe_eq
#print axioms utf8_bytes
#print axioms normalized_alphabet
#print axioms normalized_alphabet_chars
#print axioms preprocess_id
#print axioms validate_sound
#print axioms validate_exact
#print axioms pipeline_safe
#print axioms pipeline_safe_ref
#print axioms pipeline_safe_autolink
#print axioms inlineHref_safe
#print axioms validate_rejects
#print axioms goodData_needs_data
#print axioms validate_rejects_spelling
#print axioms validate_rejects_data
#print axioms slice_ok_iff
#print axioms dest_total
#print axioms dest_panics_iff
#print axioms dest_spec
#print axioms dest_pos_bounds
#print axioms BareToks.no_space
#print axioms BareToks.no_ctrl
#print axioms BareToks.no_lf
#print axioms AngleToks.no_lf
#print axioms dest_no_ctrl
#print axioms dest_lines_zero_sound
#print axioms title_total
#print axioms title_panics_iff
#print axioms title_delims
#print axioms TitleToks.lines_eq
#print axioms title_lines_exact
#print axioms rejected_stays_literal
#print axioms tail_total
