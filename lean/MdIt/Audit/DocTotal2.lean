import MdIt.Props.DocTotal2
open MdIt.Pipeline
#check @no_inline_panic_nodouble
#check @doc_crlf_invariant_nodouble
#print axioms no_inline_panic_nodouble
#print axioms doc_crlf_invariant_nodouble
