import MdIt.Props.C11Nested
open MdIt.C11N

#check @parseBlocks_nested
#check @parseBlocks_fence_nested
#check @doc_fence_verbatim_nested_sp
#check @doc_fence_verbatim_nested
#check @doc_fence_render_nested_sp
#check @doc_fence_render_nested
#check @parseBlocks_code_nested
#check @doc_indented_verbatim_nested_sp
#check @doc_indented_verbatim_nested
#check @doc_indented_render_nested_sp
#check @doc_indented_render_nested
#check @parseBlocks_para_nested
#check @doc_para_blocks_nested

#print axioms parseBlocks_nested
#print axioms parseBlocks_fence_nested
#print axioms doc_fence_verbatim_nested_sp
#print axioms doc_fence_verbatim_nested
#print axioms doc_fence_render_nested_sp
#print axioms doc_fence_render_nested
#print axioms parseBlocks_code_nested
#print axioms doc_indented_verbatim_nested_sp
#print axioms doc_indented_verbatim_nested
#print axioms doc_indented_render_nested_sp
#print axioms doc_indented_render_nested
#print axioms parseBlocks_para_nested
#print axioms doc_para_blocks_nested
