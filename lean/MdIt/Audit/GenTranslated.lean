import MdIt.Props.GenTranslated
open MdIt.GenTranslated
#check @translated_is_valid_entity_code_eq
#check @translated_valid_code_is_scalar
#check @translated_AsciiSet_new_eq
#check @translated_AsciiSet_empty_eq
#check @translated_AsciiSet_empty_has
#check @translated_AsciiSet_add_eq
#check @translated_AsciiSet_remove_eq
#check @translated_AsciiSet_has_eq
#check @translated_has_remove
#check @translated_has_add
#check @translated_is_odd_match_eq
#print axioms translated_is_valid_entity_code_eq
#print axioms translated_valid_code_is_scalar
#print axioms translated_AsciiSet_new_eq
#print axioms translated_AsciiSet_empty_eq
#print axioms translated_AsciiSet_empty_has
#print axioms translated_AsciiSet_add_eq
#print axioms translated_AsciiSet_remove_eq
#print axioms translated_AsciiSet_has_eq
#print axioms translated_has_remove
#print axioms translated_has_add
#print axioms translated_is_odd_match_eq
