import MdIt.Props.C18
open MdIt.Alt
#check @alt_flatMap
#check @alt_is_display
#check @altOfNode_display
#check @alt_nothing_dropped
#check @alt_length
#check @alt_leaf_infix
#check @alt_append
#check @alt_nested_image
#check @alt_container_transparent
#check @altOld_drops
#print axioms alt_flatMap
#print axioms alt_is_display
#print axioms altOfNode_display
#print axioms alt_nothing_dropped
#print axioms alt_length
#print axioms alt_leaf_infix
#print axioms alt_append
#print axioms alt_nested_image
#print axioms alt_container_transparent
#print axioms altOld_drops
