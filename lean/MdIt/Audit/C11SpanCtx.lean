import MdIt.Props.C11SpanCtx
open MdIt.C11X

-- part 1: the multi-line span inside containers
#check @blocks_nested_para
#check @blocks_nested_lines
#check @nested_tr_line
#check @nested_tr_spec
#check @doc_span_multiline_nested_sp
#check @doc_span_multiline_nested
#check @doc_span_multiline_render_nested_sp
#check @doc_span_multiline_render_nested
#check @doc_span_padded_lines_nested
#check @doc_span_padded_lines_render_nested
-- part 2: lines in front of the opening line / behind the closing line
#check @parseInline_mid
#check @doc_span_midparagraph_nested_sp
#check @doc_span_midparagraph_nested
#check @doc_span_midparagraph_render_nested_sp
#check @doc_span_midparagraph_render_nested
#check @doc_span_midparagraph
#check @doc_span_midparagraph_render

#print axioms blocks_nested_para
#print axioms blocks_nested_lines
#print axioms nested_tr_line
#print axioms nested_tr_spec
#print axioms doc_span_multiline_nested_sp
#print axioms doc_span_multiline_nested
#print axioms doc_span_multiline_render_nested_sp
#print axioms doc_span_multiline_render_nested
#print axioms doc_span_padded_lines_nested
#print axioms doc_span_padded_lines_render_nested
#print axioms parseInline_mid
#print axioms doc_span_midparagraph_nested_sp
#print axioms doc_span_midparagraph_nested
#print axioms doc_span_midparagraph_render_nested_sp
#print axioms doc_span_midparagraph_render_nested
#print axioms doc_span_midparagraph
#print axioms doc_span_midparagraph_render
