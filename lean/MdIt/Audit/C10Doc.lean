import MdIt.Props.C10Doc

open MdIt MdIt.Pipeline

#check @doc_crlf_invariant
#check @doc_cr_invariant
#check @doc_final_newline_invariant
#check @parseBlocks_same_views
#check @inline_range_free
#check @inline_ok_transfer
#check @Block.LE.parseBlocks_rel
#check @Block.LE.parseBlocks_res
#check @Block.LE.parseBlocks_crlf
#check @Block.LE.parseBlocks_cr
#check @Block.LE.parseBlocks_final_newline
#check @Block.LE.tokenize_sim

#print axioms doc_crlf_invariant
#print axioms doc_cr_invariant
#print axioms doc_final_newline_invariant
#print axioms parseBlocks_same_views
#print axioms inline_range_free
#print axioms inline_ok_transfer
#print axioms Block.LE.parseBlocks_rel
#print axioms Block.LE.parseBlocks_res
#print axioms Block.LE.parseBlocks_crlf
#print axioms Block.LE.parseBlocks_cr
#print axioms Block.LE.parseBlocks_final_newline
#print axioms Block.LE.tokenize_sim
