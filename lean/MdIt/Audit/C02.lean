import MdIt.Props.C02
open MdIt.Nesting
#check @currentSites_raising
#check @sites_toList
#check @over_limit_degrades
#check @over_limit_degrades_block
#check @over_limit_degrades_inline
#check @over_limit_degrades_skip
#check @block_frames_bounded
#check @inline_frames_bounded
#check @recursion_bounded
#check @parse_stack_bounded
#check @parse_stack_bounded_weak
#check @depth_bounded_partial
#check @depth_bounded_partial_weak
#check @depth_oracle_bound
#check @tree_depth
#check @walk_render_drop_recursion
#check @walk_of_run
#check @depth_excess_is_emphasis
#check @walk_bounded_up_to_emphasis
#check @sites_needed
#check @sites_needed_depth
#check @bounded_iff_raising
#check @emphasis_unbounded
#check @full_statement_false
#check @block_frames_tight
#check @recursion_tight
#check @depth_tight
#check @parse_stack_tight
#check @limit_zero
#check @trace_bounded
#check @trace_prefix_bounded
#check @trace_of_run
#print axioms currentSites_raising
#print axioms sites_toList
#print axioms over_limit_degrades
#print axioms over_limit_degrades_block
#print axioms over_limit_degrades_inline
#print axioms over_limit_degrades_skip
#print axioms block_frames_bounded
#print axioms inline_frames_bounded
#print axioms recursion_bounded
#print axioms parse_stack_bounded
#print axioms parse_stack_bounded_weak
#print axioms depth_bounded_partial
#print axioms depth_bounded_partial_weak
#print axioms depth_oracle_bound
#print axioms tree_depth
#print axioms walk_render_drop_recursion
#print axioms walk_of_run
#print axioms depth_excess_is_emphasis
#print axioms walk_bounded_up_to_emphasis
#print axioms sites_needed
#print axioms sites_needed_depth
#print axioms bounded_iff_raising
#print axioms emphasis_unbounded
#print axioms full_statement_false
#print axioms block_frames_tight
#print axioms recursion_tight
#print axioms depth_tight
#print axioms parse_stack_tight
#print axioms limit_zero
#print axioms trace_bounded
#print axioms trace_prefix_bounded
#print axioms trace_of_run

