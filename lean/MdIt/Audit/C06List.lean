import MdIt.Props.C06List
#check @MdIt.Block.Li.tau_in_line
#check @MdIt.Block.Li.tau_of_entry
#check @MdIt.Block.Li.tau_mono
#check @MdIt.Block.Li.tau_spec
#check @MdIt.Block.Li.getLinesGo_sim
#check @MdIt.Block.Li.Sim.sameLook
#check @MdIt.Block.Li.hr_sim
#check @MdIt.Block.Li.heading_sim
#check @MdIt.Block.Li.code_sim
#check @MdIt.Block.Li.fence_sim
#check @MdIt.Block.Li.lazyScan_sim
#check @MdIt.Block.Li.paragraph_sim
#check @MdIt.Block.Li.lheading_sim
#check @MdIt.Block.Li.reference_sim
#check @MdIt.Block.Li.bqRewrite_sim
#check @MdIt.Block.Li.bqScan_sim
#check @MdIt.Block.Li.blockquote_sim
#check @MdIt.Block.Li.itemRewrite_sim
#check @MdIt.Block.Li.listItem_sim
#check @MdIt.Block.Li.listContinue_sim
#check @MdIt.Block.Li.listLoop_sim
#check @MdIt.Block.Li.list_sim
#check @MdIt.Block.Li.runChain_sim
#check @MdIt.Block.Li.afterChain_sim
#check @MdIt.Block.Li.tokLoop_sim
#check @MdIt.Block.Li.tokLoop_sim_first
#check @MdIt.Block.Li.testRules_sim
#check @MdIt.Block.Li.runRule_sim
#check @MdIt.Block.Li.tokenize_sim
#check @MdIt.Block.Li.tokenize_sim_first
#check @MdIt.Block.Li.linesT_itemDoc
#check @MdIt.Block.Li.byteLen_itemDoc
#check @MdIt.Block.Li.itemRewrite_first
#check @MdIt.Block.Li.list_on_prefixed
#check @MdIt.Block.Li.item_commutes_gen
#check @MdIt.Block.Li.item_commutes_gen_parse
#check @MdIt.Block.Li.item_commutes_bullet
#check @MdIt.Block.Li.item_commutes_ordered
#print axioms MdIt.Block.Li.tau_in_line
#print axioms MdIt.Block.Li.tau_of_entry
#print axioms MdIt.Block.Li.tau_mono
#print axioms MdIt.Block.Li.tau_spec
#print axioms MdIt.Block.Li.getLinesGo_sim
#print axioms MdIt.Block.Li.Sim.sameLook
#print axioms MdIt.Block.Li.hr_sim
#print axioms MdIt.Block.Li.heading_sim
#print axioms MdIt.Block.Li.code_sim
#print axioms MdIt.Block.Li.fence_sim
#print axioms MdIt.Block.Li.lazyScan_sim
#print axioms MdIt.Block.Li.paragraph_sim
#print axioms MdIt.Block.Li.lheading_sim
#print axioms MdIt.Block.Li.reference_sim
#print axioms MdIt.Block.Li.bqRewrite_sim
#print axioms MdIt.Block.Li.bqScan_sim
#print axioms MdIt.Block.Li.blockquote_sim
#print axioms MdIt.Block.Li.itemRewrite_sim
#print axioms MdIt.Block.Li.listItem_sim
#print axioms MdIt.Block.Li.listContinue_sim
#print axioms MdIt.Block.Li.listLoop_sim
#print axioms MdIt.Block.Li.list_sim
#print axioms MdIt.Block.Li.runChain_sim
#print axioms MdIt.Block.Li.afterChain_sim
#print axioms MdIt.Block.Li.tokLoop_sim
#print axioms MdIt.Block.Li.tokLoop_sim_first
#print axioms MdIt.Block.Li.testRules_sim
#print axioms MdIt.Block.Li.runRule_sim
#print axioms MdIt.Block.Li.tokenize_sim
#print axioms MdIt.Block.Li.tokenize_sim_first
#print axioms MdIt.Block.Li.linesT_itemDoc
#print axioms MdIt.Block.Li.byteLen_itemDoc
#print axioms MdIt.Block.Li.itemRewrite_first
#print axioms MdIt.Block.Li.list_on_prefixed
#print axioms MdIt.Block.Li.item_commutes_gen
#print axioms MdIt.Block.Li.item_commutes_gen_parse
#print axioms MdIt.Block.Li.item_commutes_bullet
#print axioms MdIt.Block.Li.item_commutes_ordered
