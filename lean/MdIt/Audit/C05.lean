import MdIt.Props.C05
open MdIt.C05
#check @translate_total
#check @translate_segment
#check @translate_affine
#check @translate_mono
#check @translate_mono_virtual
#check @translate_mono_all
#check @translate_le_next
#check @translate_segment_free
#check @translate_segment_mono
#check @translate_affine_mono
#check @getSourcePosFor_eq_raw_at
#check @getSourcePosFor_eq_raw
#check @translateRaw_not_mono_inside_virtual
#check @pop_range
#check @pop_faithful
#check @text_pop_total
#check @push_range
#check @push_faithful
#check @text_push_total
#check @join_ordered
#check @join_split
#check @join_run
#check @hull_content
#check @hull_range
#check @merged_range_none
#check @emph_wrap_range
#check @emph_wrap_ordered
#print axioms translate_total
#print axioms translate_segment
#print axioms translate_affine
#print axioms translate_mono
#print axioms translate_mono_virtual
#print axioms translate_mono_all
#print axioms translate_le_next
#print axioms translate_segment_free
#print axioms translate_segment_mono
#print axioms translate_affine_mono
#print axioms getSourcePosFor_eq_raw_at
#print axioms getSourcePosFor_eq_raw
#print axioms translateRaw_not_mono_inside_virtual
#print axioms pop_range
#print axioms pop_faithful
#print axioms text_pop_total
#print axioms push_range
#print axioms push_faithful
#print axioms text_push_total
#print axioms join_ordered
#print axioms join_split
#print axioms join_run
#print axioms hull_content
#print axioms hull_range
#print axioms merged_range_none
#print axioms emph_wrap_range
#print axioms emph_wrap_ordered
