import MdIt.Props.C15
open MdIt.SourceMap
#check @marks_sorted
#check @marks_on_boundary
#check @marks_sound
#check @marks_cover
#check @getPosition_total
#check @getPosition_spec
#check @getPositions_spec
#check @bsearch_contract
#check @bsearch_unique
#check @newLoop_eq
#check @spec_is_fold
#check @afterLastEnd_iff_lastEnd
#check @spec_past_end
#check @spec_empty
#print axioms marks_sorted
#print axioms marks_on_boundary
#print axioms marks_sound
#print axioms marks_cover
#print axioms getPosition_total
#print axioms getPosition_spec
#print axioms getPositions_spec
#print axioms bsearch_contract
#print axioms bsearch_unique
#print axioms newLoop_eq
#print axioms spec_is_fold
#print axioms afterLastEnd_iff_lastEnd
#print axioms spec_past_end
#print axioms spec_empty
