import MdIt.Props.GenHtml

#check @MdIt.Html.gen_htmlBlockNames

#print axioms MdIt.Html.gen_htmlBlockNames
