import MdIt.Props.C16Doc

open MdIt.Inline.ES.C16Doc MdIt.Pipeline

#check @lookahead_quiet_run
#check @declined_quiet_run
#check @reach_frame_shape
#check @lookahead_real_agree_nested
#check @lookahead_real_agree_nested_link
#check @memo_entries_are_lookahead_steps
#check @lookahead_real_agree_top_partial
#check @reach_total
#check @reach_step_ok
#check @doc_lookahead_real_agree
#check @doc_lookahead_real_agree_stock
#check @trace_reach
#check @runTrace_reach
#check @enters_called
#check @arrives_called
#check @tokLoop_succ
#check @nested_agree_instance
#check @emphasis_run_instance
#check @top_agree_instance
#check @overlimit_entry_disagrees
#check @incoherent_lookahead_real_disagree

#print axioms lookahead_quiet_run
#print axioms declined_quiet_run
#print axioms reach_frame_shape
#print axioms lookahead_real_agree_nested
#print axioms lookahead_real_agree_nested_link
#print axioms memo_entries_are_lookahead_steps
#print axioms lookahead_real_agree_top_partial
#print axioms reach_total
#print axioms reach_step_ok
#print axioms doc_lookahead_real_agree
#print axioms doc_lookahead_real_agree_stock
#print axioms trace_reach
#print axioms runTrace_reach
#print axioms enters_called
#print axioms arrives_called
#print axioms tokLoop_succ
#print axioms nested_agree_instance
#print axioms emphasis_run_instance
#print axioms top_agree_instance
#print axioms overlimit_entry_disagrees
#print axioms incoherent_lookahead_real_disagree

-- section 7: the top frame (closes the former OPEN item)
#check @reach_top_ifp
#check @lookahead_real_agree_top
#check @top_agree_codespan_instance
#check @doc_lookahead_real_agree_top
#check @doc_lookahead_real_agree_top_stock
#print axioms reach_top_ifp
#print axioms lookahead_real_agree_top
#print axioms top_agree_codespan_instance
#print axioms doc_lookahead_real_agree_top
#print axioms doc_lookahead_real_agree_top_stock
