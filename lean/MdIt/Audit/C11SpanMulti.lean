import MdIt.Props.C11SpanMulti
open MdIt MdIt.C11M

-- the content: the exact stripping rule
#check @strip_char
#print axioms strip_char
#check @padW_char
#print axioms padW_char
#check @strip_padded
#print axioms strip_padded
#check @strip_unpadded
#print axioms strip_unpadded
#check @normalise_docOf
#print axioms normalise_docOf
#check @strip_lines
#print axioms strip_lines

-- multi-line spans, top level
#check @doc_span_multiline_sp
#print axioms doc_span_multiline_sp
#check @doc_span_multiline
#print axioms doc_span_multiline
#check @doc_span_multiline_render_sp
#print axioms doc_span_multiline_render_sp
#check @doc_span_multiline_render
#print axioms doc_span_multiline_render
#check @spanLines_padded
#print axioms spanLines_padded
#check @doc_span_padded_lines
#print axioms doc_span_padded_lines
#check @doc_span_padded_lines_render
#print axioms doc_span_padded_lines_render

-- one line, the general span (padded or not), top level
#check @doc_span_raw_sp
#print axioms doc_span_raw_sp
#check @doc_span_raw
#print axioms doc_span_raw
#check @doc_span_raw_render_sp
#print axioms doc_span_raw_render_sp
#check @doc_span_raw_render
#print axioms doc_span_raw_render
#check @doc_span_unpadded
#print axioms doc_span_unpadded
#check @doc_span_unpadded_render
#print axioms doc_span_unpadded_render

-- one line, inside containers
#check @doc_span_raw_nested_sp
#print axioms doc_span_raw_nested_sp
#check @doc_span_raw_nested
#print axioms doc_span_raw_nested
#check @doc_span_raw_render_nested_sp
#print axioms doc_span_raw_render_nested_sp
#check @doc_span_raw_render_nested
#print axioms doc_span_raw_render_nested

-- the building blocks (rule / inline / block level)
#check @MdIt.CodePair.span_raw_ctx
#print axioms MdIt.CodePair.span_raw_ctx
#check @parseInline_raw
#print axioms parseInline_raw
#check @MdIt.Block.parseBlocks_lines
#print axioms MdIt.Block.parseBlocks_lines
#check @idTable_translate
#print axioms idTable_translate
