import MdIt.Props.C14Doc
open MdIt MdIt.Pipeline

-- C14 at document level
#check @doc_inline_leaves
#check @doc_text_nf_nojoin
#check @doc_tree_wf_full
#check @not_wf_without_paraLast
-- the block-side and inline-side theorems behind them
#check @Block.tokenize_tight
#check @Block.parseBlocks_noAdjInl
#check @Inline.shape_induction
#check @Inline.parseInline_shapes
-- C11 at document level
#check @doc_fence_verbatim_sp
#check @doc_fence_verbatim
#check @doc_fence_render_sp
#check @doc_fence_render
#check @doc_fence_verbatim_mem
#check @doc_fence_render_mem
#check @doc_indented_verbatim_sp
#check @doc_indented_verbatim
#check @doc_indented_render_sp
#check @doc_indented_render
#check @doc_indented_verbatim_mem
#check @doc_indented_render_mem

#print axioms doc_inline_leaves
#print axioms doc_text_nf_nojoin
#print axioms doc_tree_wf_full
#print axioms not_wf_without_paraLast
#print axioms Block.tokenize_tight
#print axioms Block.parseBlocks_noAdjInl
#print axioms Inline.shape_induction
#print axioms Inline.parseInline_shapes
#print axioms doc_fence_verbatim_sp
#print axioms doc_fence_verbatim
#print axioms doc_fence_render_sp
#print axioms doc_fence_render
#print axioms doc_fence_verbatim_mem
#print axioms doc_fence_render_mem
#print axioms doc_indented_verbatim_sp
#print axioms doc_indented_verbatim
#print axioms doc_indented_render_sp
#print axioms doc_indented_render
#print axioms doc_indented_verbatim_mem
#print axioms doc_indented_render_mem
