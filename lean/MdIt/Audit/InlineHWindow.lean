import MdIt.Props.InlineHWindow
/-
  Audit of `MdIt/Lemmas/InlineHWindow.lean`: window-shrink independence of the raw-HTML tag matcher.
-/
open MdIt.InlineH.Window

#check @findSub_ext
#check @findSub_shr
#check @closeTagK_ext
#check @closeTagK_shr
#check @declRest_ext
#check @declRest_shr
#check @commentBody_ext
#check @commentBody_shr
#check @commentRest_ext
#check @commentRest_shr
#check @specialRest_ext
#check @specialRest_shr
#check @tagRest_ext_nonopen
#check @tagRest_shr_nonopen
#check @extent_ext_nonopen
#check @extent_shr_nonopen

#print axioms findSub_ext
#print axioms findSub_shr
#print axioms closeTagK_ext
#print axioms closeTagK_shr
#print axioms declRest_ext
#print axioms declRest_shr
#print axioms commentBody_ext
#print axioms commentBody_shr
#print axioms commentRest_ext
#print axioms commentRest_shr
#print axioms specialRest_ext
#print axioms specialRest_shr
#print axioms tagRest_ext_nonopen
#print axioms tagRest_shr_nonopen
#print axioms extent_ext_nonopen
#print axioms extent_shr_nonopen

-- the open tag and the whole `HTML_TAG_RE` (appended)
#check @closeK_ext
#check @closeK_shr
#check @valueEnds_emb
#check @PA_all
#check @openTagK_ext_weak
#check @openTagK_shr
#check @tagRest_ext_weak
#check @tagRest_shr
#check @extent_flatL2
#print axioms closeK_ext
#print axioms closeK_shr
#print axioms valueEnds_emb
#print axioms PA_all
#print axioms openTagK_ext_weak
#print axioms openTagK_shr
#print axioms tagRest_ext_weak
#print axioms tagRest_shr
#print axioms extent_flatL2
