import MdIt.Props.InlineTotal
open MdIt.Inline MdIt.Pipeline

#check @guarded_no_panic
#check @guarded_skip_no_panic
#check @parseInlineG_no_panic
#check @parseInlineG_agree
#check @parseInlineG_ok
#check @parseInline_panic_memo_only
#check @parseInline_total_of_memoSafe
#check @parseInline_ok_or_guard
#check @witness_panics
#check @tokLoopG_false
#check @skipTokenG_false
#check @doc_total_of_inline
#check @doc_total_of_memoSafe
#check @doc_total_of_docMemoSafe

#print axioms guarded_no_panic
#print axioms guarded_skip_no_panic
#print axioms parseInlineG_no_panic
#print axioms parseInlineG_agree
#print axioms parseInlineG_ok
#print axioms parseInline_panic_memo_only
#print axioms parseInline_total_of_memoSafe
#print axioms parseInline_ok_or_guard
#print axioms witness_panics
#print axioms tokLoopG_false
#print axioms skipTokenG_false
#print axioms doc_total_of_inline
#print axioms doc_total_of_memoSafe
#print axioms doc_total_of_docMemoSafe
