import MdIt.Props.GenC02
open MdIt.Nesting
#check @gen_levelSites
#check @gen_sites_raising
#print axioms gen_levelSites
#print axioms gen_sites_raising
