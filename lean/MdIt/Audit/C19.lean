import MdIt.Props.C19
open MdIt.Render
#check @serialize_events
#check @serializeRaw_events
#check @pieces_length
#check @pieces_getElem
#check @serialize_append
#check @serializeRaw_prefix
#check @lastByte_lf_iff
#check @serializeBuf_cr_bytes
#check @xhtml_diff
#check @xhtml_cr_same
#check @no_nul
#check @replaceNul_getElem
#check @serialize_nul_payload
#print axioms serialize_events
#print axioms serializeRaw_events
#print axioms pieces_length
#print axioms pieces_getElem
#print axioms serialize_append
#print axioms serializeRaw_prefix
#print axioms lastByte_lf_iff
#print axioms serializeBuf_cr_bytes
#print axioms xhtml_diff
#print axioms xhtml_cr_same
#print axioms no_nul
#print axioms replaceNul_getElem
#print axioms serialize_nul_payload
