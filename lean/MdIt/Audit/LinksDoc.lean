import MdIt.Props.LinksDoc
open MdIt
#check @Block.reference_step
#check @Block.tokenize_refs
#check @Block.reference_no_node
#check @Block.refs_first_wins
#check @Block.rule_first_wins
#check @Block.parseBlocks_refs
#check @Block.parseBlocks_refs_good
#check @Pipeline.parseDoc_every_kind
#check @Pipeline.doc_urls_safe
#check @Pipeline.doc_urls_safe'
#check @Pipeline.doc_href_safe
#check @Pipeline.doc_href_output
#check @Pipeline.doc_link_render
#check @Pipeline.spliceNode_spec
#check @Pipeline.doc_reference_position_irrelevant
#check @Pipeline.doc_reference_first_match
#check @Pipeline.doc_reference_real_tables
#check @Pipeline.doc_image_alt
#check @Pipeline.doc_img_events
#print axioms Block.reference_step
#print axioms Block.tokenize_refs
#print axioms Block.reference_no_node
#print axioms Block.refs_first_wins
#print axioms Block.rule_first_wins
#print axioms Block.parseBlocks_refs
#print axioms Block.parseBlocks_refs_good
#print axioms Pipeline.parseDoc_every_kind
#print axioms Pipeline.doc_urls_safe
#print axioms Pipeline.doc_urls_safe'
#print axioms Pipeline.doc_href_safe
#print axioms Pipeline.doc_href_output
#print axioms Pipeline.doc_link_render
#print axioms Pipeline.spliceNode_spec
#print axioms Pipeline.doc_reference_position_irrelevant
#print axioms Pipeline.doc_reference_first_match
#print axioms Pipeline.doc_reference_real_tables
#print axioms Pipeline.doc_image_alt
#print axioms Pipeline.doc_img_events
