import MdIt.Props.EmphDepthDoc
open MdIt MdIt.Pipeline
#check @ofInline_depth
#check @spliceNode_depth
#check @joinNode_depth
#check @sourceposNode_depth
#check @parseDoc_depth
#check @inlineHeight_bound
#check @fullDepthBound_closed
#check @doc_full_depth_bounded
#check @doc_full_depth_bounded'
#check @full_depth_tight
#print axioms ofInline_depth
#print axioms spliceNode_depth
#print axioms joinNode_depth
#print axioms sourceposNode_depth
#print axioms parseDoc_depth
#print axioms inlineHeight_bound
#print axioms fullDepthBound_closed
#print axioms doc_full_depth_bounded
#print axioms doc_full_depth_bounded'
#print axioms full_depth_tight
