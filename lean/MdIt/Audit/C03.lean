import MdIt.Props.C03
open MdIt.Render
#check @escape_sound
#check @escapeHtml_injective
#check @Balanced.append
#check @Balanced.wrap
#check @Balanced.leaf
#check @serializeRaw_piecesOf
#check @serialize_safe
#check @lt_only_in_tags
#check @gt_only_in_tags
#check @tag_piece_delims
#check @delims_exact
#check @amp_only_entities
#check @serialize_wellformed
#check @serialize_wellformed_final
#check @serialize_lt_only_in_tags
#print axioms escape_sound
#print axioms escapeHtml_injective
#print axioms Balanced.append
#print axioms Balanced.wrap
#print axioms Balanced.leaf
#print axioms serializeRaw_piecesOf
#print axioms serialize_safe
#print axioms lt_only_in_tags
#print axioms gt_only_in_tags
#print axioms tag_piece_delims
#print axioms delims_exact
#print axioms amp_only_entities
#print axioms serialize_wellformed
#print axioms serialize_wellformed_final
#print axioms serialize_lt_only_in_tags
