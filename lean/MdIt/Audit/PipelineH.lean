import MdIt.Props.PipelineH

open MdIt.PipelineH

#check @parseDocH_conservative
#check @parseDocH_conservative'
#check @renderDocH_conservative
#check @renderDocH_conservative'
#check @MdIt.BlockH.parseBlocksH_wf
#check @MdIt.InlineH.parseInlineH_vals
#check @parseDocH_final
#check @parseDocH_panic_inline_only
#check @docH_render_total
#check @renderDocH_panic_inline_only
#check @renderEventsH_raw_only_from_html
#check @renderDocH_raw_only_from_html
#check @renderEventsH_no_raw
#check @docH_total_of_inline
#check @docH_total_of_docMemoSafeH
#check @doc_totalH_flat_of_tables
#check @MdIt.BlockH.parseBlocksH_placeholder_tables
#check @MdIt.BlockH.parseBlocksH_inlNoRange
#check @docH_tables_mapOK
#check @doc_totalH_flat
#check @parseDocH_cr
#check @renderDocH_cr

#print axioms parseDocH_conservative
#print axioms parseDocH_conservative'
#print axioms renderDocH_conservative
#print axioms renderDocH_conservative'
#print axioms MdIt.BlockH.parseBlocksH_wf
#print axioms MdIt.InlineH.parseInlineH_vals
#print axioms parseDocH_final
#print axioms parseDocH_panic_inline_only
#print axioms docH_render_total
#print axioms renderDocH_panic_inline_only
#print axioms renderEventsH_raw_only_from_html
#print axioms renderDocH_raw_only_from_html
#print axioms renderEventsH_no_raw
#print axioms docH_total_of_inline
#print axioms docH_total_of_docMemoSafeH
#print axioms doc_totalH_flat_of_tables
#print axioms MdIt.BlockH.parseBlocksH_placeholder_tables
#print axioms MdIt.BlockH.parseBlocksH_inlNoRange
#print axioms docH_tables_mapOK
#print axioms doc_totalH_flat
#print axioms parseDocH_cr
#print axioms renderDocH_cr

-- follow-up
#check @MdIt.BlockH.parseBlocksH_content_len
#check @doc_totalH_flat_src
#check @doc_tree_wfH
#check @doc_html_placesH
#check @MdIt.InlineH.parseInlineH_shapes
#check @doc_inline_leavesH
#check @doc_tree_wf_fullH
#check @doc_html_leavesH
#check @docH_root_range

#print axioms MdIt.BlockH.parseBlocksH_content_len
#print axioms doc_totalH_flat_src
#print axioms doc_tree_wfH
#print axioms doc_html_placesH
#print axioms MdIt.InlineH.parseInlineH_shapes
#print axioms doc_inline_leavesH
#print axioms doc_tree_wf_fullH
#print axioms doc_html_leavesH
#print axioms docH_root_range
#check @docH_block_ranges
#check @docH_html_block_ranges
#print axioms docH_block_ranges
#print axioms docH_html_block_ranges

-- last follow-up: HtmlInline ranges
#check @MdIt.InlineH.parseInlineH_ranges_window_raw
#check @MdIt.InlineH.memoSafeH_flat
#check @MdIt.BlockH.parseBlocksH_upToAll
#check @docH_html_inline_ranges_of
#check @docH_html_inline_ranges
#check @docH_html_inline_ranges_memoSafe
#print axioms MdIt.InlineH.parseInlineH_ranges_window_raw
#print axioms MdIt.InlineH.memoSafeH_flat
#print axioms MdIt.BlockH.parseBlocksH_upToAll
#print axioms docH_html_inline_ranges_of
#print axioms docH_html_inline_ranges
#print axioms docH_html_inline_ranges_memoSafe
