import MdIt.Props.C16
#check @MdIt.C16.callers_restore_line
#print axioms MdIt.C16.callers_restore_line
#check @MdIt.C16.quote_restores_line
#print axioms MdIt.C16.quote_restores_line
#check @MdIt.C16.verdict_style_irrelevant
#print axioms MdIt.C16.verdict_style_irrelevant
#check @MdIt.C16.style_irrelevant
#print axioms MdIt.C16.style_irrelevant
#check @MdIt.C16.style_irrelevant_quote
#print axioms MdIt.C16.style_irrelevant_quote
#check @MdIt.C16.pinned_list_caller_style_dependent
#print axioms MdIt.C16.pinned_list_caller_style_dependent
#check @MdIt.CodePair.codepair_silent_real
#print axioms MdIt.CodePair.codepair_silent_real
#check @MdIt.CodePair.cacheInv_run
#print axioms MdIt.CodePair.cacheInv_run
#check @MdIt.CodePair.cacheInv_runSeq
#print axioms MdIt.CodePair.cacheInv_runSeq
#check @MdIt.CodePair.cache_sound
#print axioms MdIt.CodePair.cache_sound
#check @MdIt.CodePair.cache_transparent
#print axioms MdIt.CodePair.cache_transparent
#check @MdIt.CodePair.runSeq_transparent
#print axioms MdIt.CodePair.runSeq_transparent
#check @MdIt.CodePair.inside_hit
#print axioms MdIt.CodePair.inside_hit
#check @MdIt.CodePair.insideInv_run
#print axioms MdIt.CodePair.insideInv_run
#check @MdIt.CodePair.old_lookahead_poisons_cache
#print axioms MdIt.CodePair.old_lookahead_poisons_cache
#check @MdIt.CodePair.old_table_not_monotone
#print axioms MdIt.CodePair.old_table_not_monotone
#check @MdIt.CodePair.old_guard_reads_tree
#print axioms MdIt.CodePair.old_guard_reads_tree
#check @MdIt.CodePair.cut_posmax_needs_hypothesis
#print axioms MdIt.CodePair.cut_posmax_needs_hypothesis
