import MdIt.Props.C11
open MdIt.CodePair
#check @no_early_close
#check @strip_exact
#check @span_scan
#check @span_verbatim_ctx
#check @span_verbatim
#check @span_opaque
#print axioms no_early_close
#print axioms strip_exact
#print axioms span_scan
#print axioms span_verbatim_ctx
#print axioms span_verbatim
#print axioms span_opaque
