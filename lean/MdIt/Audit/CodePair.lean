import MdIt.Props.CodePair
open MdIt.CodePair
#check @codepair_no_panic
#check @runSeq_no_panic
#check @codepair_old_panics
#check @codepair_progress
#check @codepair_silent_real
#check @scan_total
#check @scan_some
#check @scan_none
#check @cacheInv_run
#check @cacheInv_runSeq
#check @cache_sound
#check @cache_transparent
#check @runSeq_transparent
#check @inside_hit
#check @insideInv_run
#check @old_lookahead_poisons_cache
#check @old_table_not_monotone
#check @old_guard_reads_tree
#check @cut_posmax_needs_hypothesis
#check @backtick_size
#check @multibyte_marker_panics
#print axioms codepair_no_panic
#print axioms runSeq_no_panic
#print axioms codepair_old_panics
#print axioms codepair_progress
#print axioms codepair_silent_real
#print axioms scan_total
#print axioms scan_some
#print axioms scan_none
#print axioms cacheInv_run
#print axioms cacheInv_runSeq
#print axioms cache_sound
#print axioms cache_transparent
#print axioms runSeq_transparent
#print axioms inside_hit
#print axioms insideInv_run
#print axioms old_lookahead_poisons_cache
#print axioms old_table_not_monotone
#print axioms old_guard_reads_tree
#print axioms cut_posmax_needs_hypothesis
#print axioms backtick_size
#print axioms multibyte_marker_panics
