import MdIt.Props.C05Inline

#check @MdIt.Pipeline.doc_ranges_ordered
#check @MdIt.Pipeline.doc_child_within
#check @MdIt.Pipeline.doc_placeholder_tables
#check @MdIt.Pipeline.pinl_of_pmapF
#check @MdIt.Pipeline.afterBlocks_nodeOrd
#check @MdIt.Block.parseBlocks_inlNoRange
#check @MdIt.Block.parseBlocks_geo2
#check @MdIt.Block.inlSpec2_pmapF
#check @MdIt.C05I.getLines_table
#check @MdIt.C05I.getLines_table_weak
#check @MdIt.C05I.getLines_lower
#check @MdIt.C05I.single_table
#check @MdIt.C05I.inlSpec_pmapW
#check @MdIt.Inline.parseInline_ranges_exact
#check @MdIt.Inline.parseInline_ranges
#check @MdIt.Inline.parseInline_within
#check @MdIt.Inline.parseFinish_within
#check @MdIt.Inline.parseInline_empty_window

#print axioms MdIt.Pipeline.doc_ranges_ordered
#print axioms MdIt.Pipeline.doc_child_within
#print axioms MdIt.Pipeline.doc_placeholder_tables
#print axioms MdIt.Pipeline.pinl_of_pmapF
#print axioms MdIt.Pipeline.afterBlocks_nodeOrd
#print axioms MdIt.Block.parseBlocks_inlNoRange
#print axioms MdIt.Block.parseBlocks_geo2
#print axioms MdIt.Block.inlSpec2_pmapF
#print axioms MdIt.C05I.getLines_table
#print axioms MdIt.C05I.getLines_table_weak
#print axioms MdIt.C05I.getLines_lower
#print axioms MdIt.C05I.single_table
#print axioms MdIt.C05I.inlSpec_pmapW
#print axioms MdIt.Inline.parseInline_ranges_exact
#print axioms MdIt.Inline.parseInline_ranges
#print axioms MdIt.Inline.parseInline_within
#print axioms MdIt.Inline.parseFinish_within
#print axioms MdIt.Inline.parseInline_empty_window
