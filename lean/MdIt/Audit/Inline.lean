import MdIt.Props.Inline
open MdIt.Inline
#check @inline_rule_progress_text
#check @inline_rule_progress_newline
#check @inline_rule_progress_escape
#check @inline_rule_progress_entity
#check @inline_rule_progress_backticks
#check @inline_rule_progress_autolink
#check @inline_rule_progress_emph
#check @inline_rule_progress_link
#check @inline_rule_bounds_link
#check @tokenize_progress
#check @fuel_suffices
#check @parseInline_fuel
#check @contracts
#check @silent_real_text
#check @silent_real_newline
#check @silent_real_escape
#check @silent_real_entity
#check @silent_real_autolink
#check @silent_real_backticks
#check @silent_real_linkRule
#check @silent_real_link
#check @silent_real_image
#check @ruleEmph_silent
#check @silent_rule_quiet
#check @skip_token_quiet
#check @skip_token_memo_hit
#check @skip_token_memo_entry
#check @memo_level_dependent
#check @normalForm_fragmentsJoinN
#check @allNF_joinAllN
#check @no_placeholder_after_finish
#check @vals_induction
#check @link_url_from_pipeline
#check @fromPipeline_safe
#check @inline_children_ordered
#check @finish_children_ordered
#check @ranges_induction
#check @scanAndMatch_ranges
#check @skipToken_calm
#check @translate_expand
#check @translate_same_line
#check @text_induction
#check @run_content_ne
#check @erase_trailingTextPush
#check @erase_trailingTextPop
#check @linkRule_bounds
#check @parseInline_no_panic_flat
#check @ruleEmph_total
#check @scanAndMatch_total
#check @tokLoop_flat
#check @init_good
#print axioms inline_rule_progress_text
#print axioms inline_rule_progress_newline
#print axioms inline_rule_progress_escape
#print axioms inline_rule_progress_entity
#print axioms inline_rule_progress_backticks
#print axioms inline_rule_progress_autolink
#print axioms inline_rule_progress_emph
#print axioms inline_rule_progress_link
#print axioms tokenize_progress
#print axioms fuel_suffices
#print axioms parseInline_fuel
#print axioms contracts
#print axioms silent_real_text
#print axioms silent_real_newline
#print axioms silent_real_escape
#print axioms silent_real_entity
#print axioms silent_real_autolink
#print axioms silent_real_backticks
#print axioms silent_real_linkRule
#print axioms silent_real_link
#print axioms silent_real_image
#print axioms ruleEmph_silent
#print axioms silent_rule_quiet
#print axioms skip_token_quiet
#print axioms skip_token_memo_hit
#print axioms skip_token_memo_entry
#print axioms memo_level_dependent
#print axioms normalForm_fragmentsJoinN
#print axioms allNF_joinAllN
#print axioms no_placeholder_after_finish
#print axioms vals_induction
#print axioms link_url_from_pipeline
#print axioms fromPipeline_safe
#print axioms inline_children_ordered
#print axioms finish_children_ordered
#print axioms ranges_induction
#print axioms scanAndMatch_ranges
#print axioms skipToken_calm
#print axioms translate_expand
#print axioms translate_same_line
#print axioms inline_rule_bounds_link
#print axioms text_induction
#print axioms run_content_ne
#print axioms erase_trailingTextPush
#print axioms erase_trailingTextPop
#print axioms linkRule_bounds
#print axioms parseInline_no_panic_flat
#print axioms ruleEmph_total
#print axioms scanAndMatch_total
#print axioms tokLoop_flat
#print axioms init_good
