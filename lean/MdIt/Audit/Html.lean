import MdIt.Props.Html
/-
  Audit of the html slice (`MdIt/Props/Html.lean`): statements and axioms of the property theorems.
-/
open MdIt.Html

#check @tagRest_spec
#check @tagMatch_spec
#check @tagRest_quick
#check @inline_rule_progress_html
#check @htmlInline_no_panic
#check @htmlInline_only_overflow
#check @htmlInline_link_level
#check @html_inline_silent_quiet
#check @html_inline_silent_real
#check @html_inline_real_silent
#check @htmlInline_node
#check @htmlBlock_no_panic
#check @block_rule_progress_html
#check @html_block_silent_quiet
#check @html_block_silent_real
#check @html_block_real_silent
#check @htmlBlock_node
#check @htmlBlock_line_views

#print axioms tagRest_spec
#print axioms tagMatch_spec
#print axioms tagRest_quick
#print axioms inline_rule_progress_html
#print axioms htmlInline_no_panic
#print axioms htmlInline_only_overflow
#print axioms htmlInline_link_level
#print axioms html_inline_silent_quiet
#print axioms html_inline_silent_real
#print axioms html_inline_real_silent
#print axioms htmlInline_node
#print axioms htmlBlock_no_panic
#print axioms block_rule_progress_html
#print axioms html_block_silent_quiet
#print axioms html_block_silent_real
#print axioms html_block_real_silent
#print axioms htmlBlock_node
#print axioms htmlBlock_line_views
