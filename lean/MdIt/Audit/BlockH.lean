import MdIt.Props.BlockH
open MdIt.BlockH

#check @parseBlocksH_conservative
#check @parseBlocksH_conservative'
#check @tokenizeH_conservative
#check @testRulesH_conservative
#check @parseBlocksH_fuel
#check @parseBlocksH_noPanic
#check @parseBlocksH_total
#check @parseBlocksH_total_i32
#check @tokenizeH_total
#check @testRulesH_total
#check @ruleAtH_total
#check @tokenizeH_progress
#check @ruleAtH_progress
#check @ruleAtH_false_same
#check @tokenizeH_progress_assert
#check @silent_implies_real_ruleH
#check @testRulesH_true_real
#check @list_shapeH
#check @fence_not_html
#check @parseBlocksH_rel
#check @parseBlocksH_related
#check @parseBlocksH_crlf
#check @parseBlocksH_cr
#check @parseBlocksH_final_newline
#check @parseBlocksH_views

#print axioms parseBlocksH_conservative
#print axioms parseBlocksH_conservative'
#print axioms tokenizeH_conservative
#print axioms testRulesH_conservative
#print axioms parseBlocksH_fuel
#print axioms parseBlocksH_noPanic
#print axioms parseBlocksH_total
#print axioms parseBlocksH_total_i32
#print axioms tokenizeH_total
#print axioms testRulesH_total
#print axioms ruleAtH_total
#print axioms tokenizeH_progress
#print axioms ruleAtH_progress
#print axioms ruleAtH_false_same
#print axioms tokenizeH_progress_assert
#print axioms silent_implies_real_ruleH
#print axioms testRulesH_true_real
#print axioms list_shapeH
#print axioms fence_not_html
#print axioms parseBlocksH_rel
#print axioms parseBlocksH_related
#print axioms parseBlocksH_crlf
#print axioms parseBlocksH_cr
#print axioms parseBlocksH_final_newline
#print axioms parseBlocksH_views
