import MdIt.Props.Pipeline
open MdIt.Pipeline
#check @MdIt.Block.parseBlocks_wf
#check @MdIt.Block.tokenize_wf
#check @MdIt.Block.runChain_para
#check @parseDoc_final
#check @parseDoc_panic
#check @renderDoc_panic
#check @spliceList_every
#check @spliceNode_panic
#check @joinNode_every
#check @fragmentsJoin_mem
#check @sourceposAttrs_eq
#check @sourceposNode_total
#check @final_hyps
#check @doc_output_html_free
#check @doc_output_renderable
#check @doc_render_total
#check @doc_safe_output
#check @doc_safe_output'
#check @doc_deterministic
#check @doc_pure
#check @doc_refs_local
#check @inline_state_local
#check @spliceList_kinds
#check @spliceList_wf
#check @fragmentsJoin_nf
#check @joinNode_wf_aux
#check @sourceposNode_wf
#check @doc_tree_wf
#check @parseDoc_stages
#check @doc_sourcepos_spec
#check @render_ranges_irrelevant
#check @erase_joinNode
#check @spliceNode_congr
#check @doc_line_ending_reduction
#print axioms MdIt.Block.parseBlocks_wf
#print axioms MdIt.Block.tokenize_wf
#print axioms MdIt.Block.runChain_para
#print axioms parseDoc_final
#print axioms parseDoc_panic
#print axioms renderDoc_panic
#print axioms spliceList_every
#print axioms spliceNode_panic
#print axioms joinNode_every
#print axioms fragmentsJoin_mem
#print axioms sourceposAttrs_eq
#print axioms sourceposNode_total
#print axioms final_hyps
#print axioms doc_output_html_free
#print axioms doc_output_renderable
#print axioms doc_render_total
#print axioms doc_safe_output
#print axioms doc_safe_output'
#print axioms doc_deterministic
#print axioms doc_pure
#print axioms doc_refs_local
#print axioms inline_state_local
#print axioms spliceList_kinds
#print axioms spliceList_wf
#print axioms fragmentsJoin_nf
#print axioms joinNode_wf_aux
#print axioms sourceposNode_wf
#print axioms doc_tree_wf
#print axioms parseDoc_stages
#print axioms doc_sourcepos_spec
#print axioms render_ranges_irrelevant
#print axioms erase_joinNode
#print axioms spliceNode_congr
#print axioms doc_line_ending_reduction
