import MdIt.Props.BlockTotal

open MdIt.Block

#check @parseBlocks_total
#check @parseBlocks_total_i32
#check @parseBlocks_noPanic
#check @parseBlocks_fuel
#check @tokenize_total
#check @tokenize_nf
#check @testRules_total
#check @testRules_nf
#check @ruleAt_total
#check @rulesNP
#check @bInv_fresh
#check @hr_np
#check @heading_np
#check @code_np
#check @fence_np
#check @paragraph_np
#check @lheading_np
#check @reference_np
#check @refParse_total
#check @refParse_error
#check @blockquote_np
#check @list_np

#print axioms parseBlocks_total
#print axioms parseBlocks_total_i32
#print axioms parseBlocks_noPanic
#print axioms parseBlocks_fuel
#print axioms tokenize_total
#print axioms tokenize_nf
#print axioms testRules_total
#print axioms testRules_nf
#print axioms ruleAt_total
#print axioms rulesNP
#print axioms bInv_fresh
#print axioms hr_np
#print axioms heading_np
#print axioms code_np
#print axioms fence_np
#print axioms paragraph_np
#print axioms lheading_np
#print axioms reference_np
#print axioms refParse_total
#print axioms refParse_error
#print axioms blockquote_np
#print axioms list_np
