import MdIt.Props.C20
open MdIt.ErasedSet MdIt.Tree
-- storage
#check @eset_inv
#check @eset_inv_reachable
#check @eset_total_step
#check @eset_total
#check @eset_refines
#check @run_ok
#check @run_refines
#check @eset_at_most_one
#check @eset_get_iff
#check @card_abs
#check @Card.unique
#check @spec_deterministic
#check @specRun_deterministic
-- tree
#check @walk_preorder
#check @walk_getElem
#check @paths_unique
#check @walk_depth_lt_height
#check @walkMutFuel_spec
#check @walkMutFuel_mono
#check @walkMutFuel_unique
#check @walkMutFuel_total
#check @walkMut_spec
#check @walkMut_total
#check @walkMutFuelS_pure
#check @walkMut_order
#check @demoF_nonExpanding
#check @replace_spec
#check @node_type_inv
#print axioms eset_inv
#print axioms eset_inv_reachable
#print axioms eset_total_step
#print axioms eset_total
#print axioms eset_refines
#print axioms run_ok
#print axioms run_refines
#print axioms eset_at_most_one
#print axioms eset_get_iff
#print axioms card_abs
#print axioms Card.unique
#print axioms spec_deterministic
#print axioms specRun_deterministic
#print axioms walk_preorder
#print axioms walk_getElem
#print axioms paths_unique
#print axioms walk_depth_lt_height
#print axioms walkMutFuel_spec
#print axioms walkMutFuel_mono
#print axioms walkMutFuel_unique
#print axioms walkMutFuel_total
#print axioms walkMut_spec
#print axioms walkMut_total
#print axioms walkMutFuelS_pure
#print axioms walkMut_order
#print axioms demoF_nonExpanding
#print axioms replace_spec
#print axioms node_type_inv
