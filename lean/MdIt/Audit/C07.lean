import MdIt.Props.C07
open MdIt.ParserState
#check @parse_preserves_config
#check @parse_preserves_coherent
#check @parse_cache_contents_doc_independent
#check @fresh_equiv
#check @fresh_equiv_cold
#check @fresh_equiv_spec
#check @fresh_equiv_observed
#check @parse_deterministic
#check @parse_deterministic_later
#check @parse_after_parse
#print axioms parse_preserves_config
#print axioms parse_preserves_coherent
#print axioms parse_cache_contents_doc_independent
#print axioms fresh_equiv
#print axioms fresh_equiv_cold
#print axioms fresh_equiv_spec
#print axioms fresh_equiv_observed
#print axioms parse_deterministic
#print axioms parse_deterministic_later
#print axioms parse_after_parse
