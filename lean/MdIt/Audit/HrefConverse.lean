import MdIt.Props.HrefConverse

#check @MdIt.HtmlTok.tokens_of_safe
#check @MdIt.HtmlTok.tokens_of_events
#check @MdIt.HtmlTok.attrsStr_boundaries
#check @MdIt.HtmlTok.tag_piece_boundaries
#check @MdIt.Pipeline.doc_tokens_exact
#check @MdIt.Pipeline.doc_no_smuggled_href
#check @MdIt.Pipeline.doc_tag_pieces
#check @MdIt.Pipeline.doc_attrs_exact
#check @MdIt.Pipeline.doc_href_occurrences

#print axioms MdIt.HtmlTok.tokens_of_safe
#print axioms MdIt.HtmlTok.tokens_of_events
#print axioms MdIt.HtmlTok.attrsStr_boundaries
#print axioms MdIt.HtmlTok.tag_piece_boundaries
#print axioms MdIt.Pipeline.doc_tokens_exact
#print axioms MdIt.Pipeline.doc_no_smuggled_href
#print axioms MdIt.Pipeline.doc_tag_pieces
#print axioms MdIt.Pipeline.doc_attrs_exact
#print axioms MdIt.Pipeline.doc_href_occurrences
