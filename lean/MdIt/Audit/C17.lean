import MdIt.Props.C17
open MdIt.Url
#check @encode_alphabet
#check @encode_ascii
#print axioms encode_alphabet
#print axioms encode_ascii
