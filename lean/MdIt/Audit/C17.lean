import MdIt.Props.C17
open MdIt.Url
#check @encode_alphabet
#check @encode_ascii
#check @encodeIdx_total
#check @keep_decode
#check @keep_preserves
#check @keep_tokens
#check @tokenize_raw
#check @pctDecode_tokens
#check @keep_idempotent
#check @encode_EncK
#check @fix_on_EncK
#check @EncK_iff_fixed
#check @nokeep_roundtrip
#check @asciiset_spec
#check @setFrom_spec
#check @default_set_exact
#check @default_set_excludes
#check @default_no_pct
#check @encode_default_visible
#print axioms encode_alphabet
#print axioms encode_ascii
#print axioms encodeIdx_total
#print axioms keep_decode
#print axioms keep_preserves
#print axioms keep_tokens
#print axioms tokenize_raw
#print axioms pctDecode_tokens
#print axioms keep_idempotent
#print axioms encode_EncK
#print axioms fix_on_EncK
#print axioms EncK_iff_fixed
#print axioms nokeep_roundtrip
#print axioms asciiset_spec
#print axioms setFrom_spec
#print axioms default_set_exact
#print axioms default_set_excludes
#print axioms default_no_pct
#print axioms encode_default_visible
