import MdIt.Props.C13Trace

#check @MdIt.Block.Tr.tokenizeT_state
#check @MdIt.Block.Tr.tokenize_trace
#check @MdIt.Block.Tr.docTrace_laminar
#check @MdIt.Block.Tr.defs_in_line_order
#check @MdIt.Pipeline.doc_first_definition_by_line
#check @MdIt.Pipeline.doc_first_definition_by_line_idem
#check @MdIt.Block.Tr.leading_definition_stored
#check @MdIt.Pipeline.doc_two_definitions
#check @MdIt.Block.Tr.two_definitions_quoted
#check @MdIt.Block.Tr.two_definitions_item

#print axioms MdIt.Block.Tr.tokenizeT_state
#print axioms MdIt.Block.Tr.tokenize_trace
#print axioms MdIt.Block.Tr.docTrace_laminar
#print axioms MdIt.Block.Tr.defs_in_line_order
#print axioms MdIt.Pipeline.doc_first_definition_by_line
#print axioms MdIt.Pipeline.doc_first_definition_by_line_idem
#print axioms MdIt.Block.Tr.leading_definition_stored
#print axioms MdIt.Pipeline.doc_two_definitions
#print axioms MdIt.Block.Tr.two_definitions_quoted
#print axioms MdIt.Block.Tr.two_definitions_item
