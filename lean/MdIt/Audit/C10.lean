import MdIt.Props.C10
open MdIt.Lines
#check @split_offsets_valid
#check @offsets_increasing
#check @split_views
#check @views_no_terminator
#check @split_crlf
#check @split_cr
#check @split_final_newline
#check @get_lines_lf
#check @get_lines_no_cr
#check @get_lines_of_views
#check @get_lines_total
#check @get_lines_faithful
#check @is_empty_of_view
#check @get_lines_split
#check @get_lines_split_no_cr
#check @get_lines_same_views
#check @get_lines_crlf
#check @get_lines_cr
#check @get_lines_final_newline
#check @calc_right_bounds
#check @calc_right_le
#check @calc_right_onBoundary
#check @cut_right_total
#check @cut_zero
#check @cut_prefix
#check @cut_full_indent
#check @cut_four
#check @cut_four_text
#check @rfindAndCount_tab_mod
#check @find_indent_spec
#check @find_indent_total
#check @find_indent_bounds
#check @slice_eq_ok_iff
#check @slice_ok_of_boundaries
#check @splitLines_eq
#check @linesT_fst
#print axioms split_offsets_valid
#print axioms offsets_increasing
#print axioms split_views
#print axioms views_no_terminator
#print axioms split_crlf
#print axioms split_cr
#print axioms split_final_newline
#print axioms get_lines_lf
#print axioms get_lines_no_cr
#print axioms get_lines_of_views
#print axioms get_lines_total
#print axioms get_lines_faithful
#print axioms is_empty_of_view
#print axioms get_lines_split
#print axioms get_lines_split_no_cr
#print axioms get_lines_same_views
#print axioms get_lines_crlf
#print axioms get_lines_cr
#print axioms get_lines_final_newline
#print axioms calc_right_bounds
#print axioms calc_right_le
#print axioms calc_right_onBoundary
#print axioms cut_right_total
#print axioms cut_zero
#print axioms cut_prefix
#print axioms cut_full_indent
#print axioms cut_four
#print axioms cut_four_text
#print axioms rfindAndCount_tab_mod
#print axioms find_indent_spec
#print axioms find_indent_total
#print axioms find_indent_bounds
#print axioms slice_eq_ok_iff
#print axioms slice_ok_of_boundaries
#print axioms splitLines_eq
#print axioms linesT_fst
