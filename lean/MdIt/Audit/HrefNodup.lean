import MdIt.Props.HrefNodup

#check @MdIt.NodeRender.frameT_nodup
#check @MdIt.NodeRender.render_nodup
#check @MdIt.Pipeline.doc_attrs_spOnce
#check @MdIt.Pipeline.doc_attr_names_nodup
#check @MdIt.Pipeline.dropDupNames_of_nodup
#check @MdIt.Pipeline.doc_tokens_nodup

#print axioms MdIt.NodeRender.frameT_nodup
#print axioms MdIt.NodeRender.render_nodup
#print axioms MdIt.Pipeline.doc_attrs_spOnce
#print axioms MdIt.Pipeline.doc_attr_names_nodup
#print axioms MdIt.Pipeline.dropDupNames_of_nodup
#print axioms MdIt.Pipeline.doc_tokens_nodup
