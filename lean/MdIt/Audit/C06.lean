import MdIt.Props.C06
open MdIt.Block
#check @findIndent_tabfree
#check @quote_view
#check @quote_view_shift
#check @item_view
#check @calcRight_spaces
#check @viewPiece_prefix
#check @viewPiece_item
#check @get_lines_same_pieces
#check @get_lines_quote
#check @get_lines_item
#check @hr_silent_view
#check @heading_silent_view
#check @fence_silent_view
#check @blockquote_silent_view
#check @list_silent_view
#check @silent_same_view_rule
#check @runChain_same_view
#check @testRules_same_view
#check @sigma_in_line
#check @sigma_of_entry
#check @sigma_mono
#check @getLinesGo_sim
#check @hr_sim
#check @heading_sim
#check @code_sim
#check @fence_sim
#check @lazyScan_sim
#check @paragraph_sim
#check @lheading_sim
#check @reference_sim
#check @bqRewrite_sim
#check @bqScan_sim
#check @blockquote_sim
#check @itemRewrite_sim
#check @listItemBody_sim
#check @listItem_sim
#check @listContinue_sim
#check @listLoop_sim
#check @markTight_reloc
#check @tightenItems_reloc
#check @list_sim
#check @runChain_sim
#check @afterChain_sim
#check @tokLoop_sim
#check @testRules_sim
#check @runRule_sim
#check @tokenize_sim
#check @linesT_flat_of_shape
#check @fresh_prefixed_reads
#check @bqScan_prefixed
#check @front_rejects
#check @runChain_front
#check @tokenize_fresh_end
#check @linesOk_linesT
#check @linesT_prefixQuote
#check @splitLines_prefixQuote
#check @byteLen_prefixQuote
#check @blockquote_on_prefixed
#check @sigma_spec
#check @tokLoop_one
#check @quote_commutes
#print axioms findIndent_tabfree
#print axioms quote_view
#print axioms quote_view_shift
#print axioms item_view
#print axioms calcRight_spaces
#print axioms viewPiece_prefix
#print axioms viewPiece_item
#print axioms get_lines_same_pieces
#print axioms get_lines_quote
#print axioms get_lines_item
#print axioms hr_silent_view
#print axioms heading_silent_view
#print axioms fence_silent_view
#print axioms blockquote_silent_view
#print axioms list_silent_view
#print axioms silent_same_view_rule
#print axioms runChain_same_view
#print axioms testRules_same_view
#print axioms sigma_in_line
#print axioms sigma_of_entry
#print axioms sigma_mono
#print axioms getLinesGo_sim
#print axioms hr_sim
#print axioms heading_sim
#print axioms code_sim
#print axioms fence_sim
#print axioms lazyScan_sim
#print axioms paragraph_sim
#print axioms lheading_sim
#print axioms reference_sim
#print axioms bqRewrite_sim
#print axioms bqScan_sim
#print axioms blockquote_sim
#print axioms itemRewrite_sim
#print axioms listItemBody_sim
#print axioms listItem_sim
#print axioms listContinue_sim
#print axioms listLoop_sim
#print axioms markTight_reloc
#print axioms tightenItems_reloc
#print axioms list_sim
#print axioms runChain_sim
#print axioms afterChain_sim
#print axioms tokLoop_sim
#print axioms testRules_sim
#print axioms runRule_sim
#print axioms tokenize_sim
#print axioms linesT_flat_of_shape
#print axioms fresh_prefixed_reads
#print axioms bqScan_prefixed
#print axioms front_rejects
#print axioms runChain_front
#print axioms tokenize_fresh_end
#print axioms linesOk_linesT
#print axioms linesT_prefixQuote
#print axioms splitLines_prefixQuote
#print axioms byteLen_prefixQuote
#print axioms blockquote_on_prefixed
#print axioms sigma_spec
#print axioms tokLoop_one
#print axioms quote_commutes
