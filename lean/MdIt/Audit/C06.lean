import MdIt.Props.C06
open MdIt.Block
#check @findIndent_tabfree
#check @quote_view
#check @quote_view_shift
#check @item_view
#check @calcRight_spaces
#check @viewPiece_prefix
#check @viewPiece_item
#check @get_lines_same_pieces
#check @get_lines_quote
#check @get_lines_item
#check @hr_silent_view
#check @heading_silent_view
#check @fence_silent_view
#check @blockquote_silent_view
#check @list_silent_view
#check @silent_same_view_rule
#check @testRules_same_view
#print axioms findIndent_tabfree
#print axioms quote_view
#print axioms quote_view_shift
#print axioms item_view
#print axioms calcRight_spaces
#print axioms viewPiece_prefix
#print axioms viewPiece_item
#print axioms get_lines_same_pieces
#print axioms get_lines_quote
#print axioms get_lines_item
#print axioms hr_silent_view
#print axioms heading_silent_view
#print axioms fence_silent_view
#print axioms blockquote_silent_view
#print axioms list_silent_view
#print axioms silent_same_view_rule
#print axioms testRules_same_view
