import MdIt.Props.C01
#check @MdIt.C01.codespan_rule_total
#print axioms MdIt.C01.codespan_rule_total
#check @MdIt.CodePair.codepair_no_panic
#print axioms MdIt.CodePair.codepair_no_panic
#check @MdIt.CodePair.runSeq_no_panic
#print axioms MdIt.CodePair.runSeq_no_panic
#check @MdIt.CodePair.scan_total
#print axioms MdIt.CodePair.scan_total
#check @MdIt.CodePair.codepair_progress
#print axioms MdIt.CodePair.codepair_progress
#check @MdIt.CodePair.codepair_old_panics
#print axioms MdIt.CodePair.codepair_old_panics
#check @MdIt.Url.encodeIdx_total
#print axioms MdIt.Url.encodeIdx_total
#check @MdIt.SourceMap.getPosition_total
#print axioms MdIt.SourceMap.getPosition_total
#check @MdIt.C05.translate_total
#print axioms MdIt.C05.translate_total
#check @MdIt.C05.text_push_total
#print axioms MdIt.C05.text_push_total
#check @MdIt.C05.text_pop_total
#print axioms MdIt.C05.text_pop_total
#check @MdIt.Lines.get_lines_total
#print axioms MdIt.Lines.get_lines_total
#check @MdIt.Lines.split_offsets_valid
#print axioms MdIt.Lines.split_offsets_valid
#check @MdIt.Lines.calc_right_bounds
#print axioms MdIt.Lines.calc_right_bounds
#check @MdIt.Lines.find_indent_total
#print axioms MdIt.Lines.find_indent_total
#check @MdIt.Entity.numeric_parse_total
#print axioms MdIt.Entity.numeric_parse_total
#check @MdIt.Entity.unescapeAllE_total
#print axioms MdIt.Entity.unescapeAllE_total
#check @MdIt.Entity.tokenizeTEE_total
#print axioms MdIt.Entity.tokenizeTEE_total
#check @MdIt.Link.dest_total
#print axioms MdIt.Link.dest_total
#check @MdIt.Link.title_total
#print axioms MdIt.Link.title_total
#check @MdIt.Link.tail_total
#print axioms MdIt.Link.tail_total
#check @MdIt.C14.splice_removes_inlineroot
#print axioms MdIt.C14.splice_removes_inlineroot
#check @MdIt.Ruler.compile_total
#print axioms MdIt.Ruler.compile_total
#check @MdIt.ParserState.parse_total
#print axioms MdIt.ParserState.parse_total
#check @MdIt.ParserState.debugFmt_total
#print axioms MdIt.ParserState.debugFmt_total
#check @MdIt.ErasedSet.eset_total
#print axioms MdIt.ErasedSet.eset_total
#check @MdIt.Tree.node_type_inv
#print axioms MdIt.Tree.node_type_inv
#check @MdIt.Nesting.recursion_bounded
#print axioms MdIt.Nesting.recursion_bounded
#check @MdIt.Nesting.parse_stack_bounded
#print axioms MdIt.Nesting.parse_stack_bounded
