import MdIt.Props.NodeRender
open MdIt.NodeRender
#check @render_frame
#check @frameOf_eq
#check @frameOf_alt_irrelevant
#check @render_total
#check @render_panic_exact
#check @render_never_unescape_panic
#check @render_no_raw
#check @html_nodes_are_the_only_raw
#check @raw_iff_html
#check @render_vocab
#check @render_balanced
#check @render_balanced'
#check @render_void_only
#check @safe_output
#check @safe_output_lt
#check @render_html_events
#check @renderList_ok
#check @render_children_in_order
#check @render_deterministic
#check @fence_class
#check @firstWord_no_ws
#check @firstWord_spec
#check @isWs_table
#check @image_alt_is_display
#check @image_alt_walk
#check @visited_subset_nodes
#check @hyps_of_all_nodes
#check @render_induction
#print axioms render_frame
#print axioms frameOf_eq
#print axioms frameOf_alt_irrelevant
#print axioms render_total
#print axioms render_panic_exact
#print axioms render_never_unescape_panic
#print axioms render_no_raw
#print axioms html_nodes_are_the_only_raw
#print axioms raw_iff_html
#print axioms render_vocab
#print axioms render_balanced
#print axioms render_balanced'
#print axioms render_void_only
#print axioms safe_output
#print axioms safe_output_lt
#print axioms render_html_events
#print axioms renderList_ok
#print axioms render_children_in_order
#print axioms render_deterministic
#print axioms fence_class
#print axioms firstWord_no_ws
#print axioms firstWord_spec
#print axioms isWs_table
#print axioms image_alt_is_display
#print axioms image_alt_walk
#print axioms visited_subset_nodes
#print axioms hyps_of_all_nodes
#print axioms render_induction
