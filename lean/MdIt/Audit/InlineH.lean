import MdIt.Props.InlineH
/-
  Audit of `MdIt/Props/InlineH.lean`: the inline parser with the raw-HTML rule in the chain.
-/
open MdIt.InlineH

#check @parseInlineH_conservative
#check @parseInlineH_conservative'
#check @parseFinishH_conservative
#check @tokenizeH_conservative
#check @skipTokenH_conservative
#check @ruleAtH_conservative
#check @ruleAtH_progress
#check @htmlRule_fires
#check @htmlRule_advances
#check @ruleAtH_bounds_link
#check @silent_ruleH_calm
#check @tokenizeH_progress
#check @fuel_sufficesH
#check @skipTokenH_spec
#check @parseInlineH_fuel
#check @guarded_no_panicH
#check @guarded_skip_no_panicH
#check @ruleAtH_bounds
#check @parseInlineHG_no_panic
#check @parseInlineHG_agree
#check @parseInlineH_panic_memo_only
#check @parseInlineH_total_of_memoSafeH
#check @parseInlineH_ok_or_guard
#check @parseInlineH_total_flat
#check @ruleAtH_html
#check @htmlRule_silent_real
#check @htmlRule_real_silent
#check @htmlRule_window
#check @chain_html_silent_real

#print axioms parseInlineH_conservative
#print axioms parseInlineH_conservative'
#print axioms parseFinishH_conservative
#print axioms tokenizeH_conservative
#print axioms skipTokenH_conservative
#print axioms ruleAtH_conservative
#print axioms ruleAtH_progress
#print axioms htmlRule_fires
#print axioms htmlRule_advances
#print axioms ruleAtH_bounds_link
#print axioms silent_ruleH_calm
#print axioms tokenizeH_progress
#print axioms fuel_sufficesH
#print axioms skipTokenH_spec
#print axioms parseInlineH_fuel
#print axioms guarded_no_panicH
#print axioms guarded_skip_no_panicH
#print axioms ruleAtH_bounds
#print axioms parseInlineHG_no_panic
#print axioms parseInlineHG_agree
#print axioms parseInlineH_panic_memo_only
#print axioms parseInlineH_total_of_memoSafeH
#print axioms parseInlineH_ok_or_guard
#print axioms parseInlineH_total_flat
#print axioms ruleAtH_html
#print axioms htmlRule_silent_real
#print axioms htmlRule_real_silent
#print axioms htmlRule_window
#print axioms chain_html_silent_real

-- C05 with html (appended)
#check @inlineH_children_ordered
#check @finishH_children_ordered
#check @parseInlineH_ranges
#check @parseInlineH_ranges_raw
#check @parseInlineH_ranges_window
#check @desc_ranges
#print axioms inlineH_children_ordered
#print axioms finishH_children_ordered
#print axioms parseInlineH_ranges
#print axioms parseInlineH_ranges_raw
#print axioms parseInlineH_ranges_window
#print axioms desc_ranges
