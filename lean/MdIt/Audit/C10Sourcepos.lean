import MdIt.Props.C10Sourcepos

open MdIt MdIt.Pipeline

#check @doc_cr_invariant_sp
#check @doc_cr_invariant_all
#check @doc_final_newline_invariant_sp
#check @doc_crlf_invariant_sp_partial
#check @Block.LX.parseBlocks_crlf_exact
#check @Block.LX.parseBlocks_in_lines
#check @C10SP.getPositions_lfToCr
#check @C10SP.getPositions_final_newline
#check @C10SP.getPositions_crlf
#check @C10SP.runSt_lfToCrlf
#check @NodeRender.render_dropA
#check @rmap_joinNode
#check @final_stage
#check @inlineExact_of_plain

#print axioms doc_cr_invariant_sp
#print axioms doc_cr_invariant_all
#print axioms doc_final_newline_invariant_sp
#print axioms doc_crlf_invariant_sp_partial
#print axioms Block.LX.parseBlocks_crlf_exact
#print axioms Block.LX.parseBlocks_in_lines
#print axioms C10SP.getPositions_lfToCr
#print axioms C10SP.getPositions_final_newline
#print axioms C10SP.getPositions_crlf
#print axioms C10SP.runSt_lfToCrlf
#print axioms NodeRender.render_dropA
#print axioms rmap_joinNode
#print axioms final_stage
#print axioms inlineExact_of_plain

#check @doc_final_newline_invariant_sp_full
#check @doc_crlf_invariant_sp_full
#check @doc_final_newline_invariant_sp_tabFree
#check @doc_crlf_invariant_sp_tabFree
#check @doc_starts_on_bytes
#check @Block.parseBlocks_anchored
#check @Block.LX.Y.parseBlocks_crlf_strict
#check @C10SP.parseInline_exact
#check @doc_placeholder_segs
#check @tr_shift
#check @doc_final_newline_sp_of_inline
#check @doc_crlf_sp_of_inline

#print axioms doc_final_newline_invariant_sp_full
#print axioms doc_crlf_invariant_sp_full
#print axioms doc_final_newline_invariant_sp_tabFree
#print axioms doc_crlf_invariant_sp_tabFree
#print axioms doc_starts_on_bytes
#print axioms Block.parseBlocks_anchored
#print axioms Block.LX.Y.parseBlocks_crlf_strict
#print axioms C10SP.parseInline_exact
#print axioms doc_placeholder_segs
#print axioms tr_shift
#print axioms doc_final_newline_sp_of_inline
#print axioms doc_crlf_sp_of_inline

#check @doc_final_newline_invariant_sp_all
#check @doc_crlf_invariant_sp_all
#check @doc_starts_on_bytes_all
#check @C10SP.parseInline_exactT
#check @doc_placeholder_segsT
#check @tr_shiftT
#check @tr_onByteT
#check @mapT_shift
#check @doc_final_newline_sp_of_inlineT
#check @doc_crlf_sp_of_inlineT

#print axioms doc_final_newline_invariant_sp_all
#print axioms doc_crlf_invariant_sp_all
#print axioms doc_starts_on_bytes_all
#print axioms C10SP.parseInline_exactT
#print axioms doc_placeholder_segsT
#print axioms tr_shiftT
#print axioms tr_onByteT
#print axioms mapT_shift
#print axioms doc_final_newline_sp_of_inlineT
#print axioms doc_crlf_sp_of_inlineT
