import MdIt.Props.C12Ctx

open MdIt.Pipeline

#check @reference_in_title
#check @reference_in_title_any
#check @reference_in_destination
#check @reference_in_bare_destination
#check @reference_in_definition
#check @reference_in_image
#check @contexts_agree
#check @stock_contexts_agree
#check @parseDoc_inline_link
#check @parseDoc_inline_image

#print axioms reference_in_title
#print axioms reference_in_title_any
#print axioms reference_in_destination
#print axioms reference_in_bare_destination
#print axioms reference_in_definition
#print axioms reference_in_image
#print axioms contexts_agree
#print axioms stock_contexts_agree
#print axioms parseDoc_inline_link
#print axioms parseDoc_inline_image
