import MdIt.Props.C12Ctx

open MdIt.Pipeline

#check @reference_in_title
#check @reference_in_destination
#check @reference_in_definition
#check @parseDoc_inline_link

#print axioms reference_in_title
#print axioms reference_in_destination
#print axioms reference_in_definition
#print axioms parseDoc_inline_link
