"""Per-property configuration of ./check: theorem registry, streams, oracle, trusted base."""
import json, os

ROOT = os.path.dirname(os.path.dirname(os.path.abspath(__file__)))

KERNEL = "Lean 4.33.0 kernel; axioms allowed: propext, Classical.choice, Quot.sound (audited by #print axioms on every registered theorem); no sorry/admit/native_decide/own axioms (source audit); thorough tier re-checks the compiled module with leanchecker"
MODEL = "hand-written Lean model of the anchored code (modelled, not verified); tied to /repo on every run by the correspondence streams (differential testing of the real functions against the compiled model driver; generator quality bounds what it sees) and by extract/extract.py for constants"
HARNESS = "extract/extract.py, the Rust harness (generators, canonical printers, oracles, hooks under cfg mdit_verif) and the orchestrator ./check"
LIBS = "rustc/std, regex, html_escape, entities, unicode-general-category assumed to meet their documented contracts"
BASE = [KERNEL, MODEL, HARNESS, LIBS]

try:
    REG = json.load(open(os.path.join(ROOT, 'lean', 'props_registry.json')))
except OSError:
    REG = {}


def P(pid, streams, oracle, rule, assumptions, examples=0, extra_modules=()):
    # extra_modules: names of further audit modules, or (name, regex) to take only the matching theorems
    import re as _re
    extra, mods = [], []
    for m in extra_modules:
        name, rx = (m, None) if isinstance(m, str) else m
        mods.append(name)
        extra += [t for t in REG.get(name, []) if rx is None or _re.search(rx, t)]
    extra_modules = mods
    return dict(theorems=REG.get(pid, []) + extra, examples=examples, streams=streams, oracle=oracle, rule=rule,
                trusted_base=BASE, assumptions=assumptions, extra_modules=list(extra_modules))


# (stream, cases quick, cases thorough); oracle = (id, budget quick, budget thorough)
PROPS = {
    'C01': P('C01', [('codepair', 10000, 80000), ('lines', 600, 4800), ('inlineops', 7500, 60000), ('link', 10000, 80000), ('entity', 10000, 80000), ('url', 10000, 80000), ('smap', 300, 2400), ('block', 6000, 48000), ('inline', 5000, 40000), ('pipeline', 1500, 12000), ('pipetabs', 1000, 8000), ('html', 6000, 48000), ('blockh', 2500, 20000), ('inlineh', 2500, 20000), ('pipelineh', 1200, 9600)], ('C01', 30000, 240000),
             "oracle: parse->render->xrender under catch_unwind on grammar/spec/mutated/adversarial/malformed documents x configuration sample (subsets, orders, max_nesting); non-trivial = contains a markdown-significant character; distinct by hash of (cfg, source)",
             ["whole-pipeline totality theorem is _partial: mechanism theorems + rule-level correspondence + oracle cover the composition",
              "hang = wall time beyond 2 s + 1 ms/byte; stack exhaustion is covered by C02"], extra_modules=('InlineHWindow', ('PipelineH', r'panic_inline_only|total|blocks_ok|final|conservative|tables|content_len'), ('InlineH', r'total|fuel|no_panic|progress|conservative|bounds|fires|advances|memo|guard|spec'), ('BlockH', r'total|fuel|noPanic|progress|conservative'), ('Html', r'no_panic|progress|overflow|link_level|tagMatch_spec|tagRest'), 'GenHtml', ('GenTranslated', r'is_odd_match'), 'TotalTabs', 'MemoSafe', 'InlineTotal', 'BlockTotal', ('DocTotal', r'panic_inline_only|parseDoc_blocks_ok'), ('EmphDepthDoc', r'doc_full_depth_bounded'), 'GenC17', 'GenC02', ('Pipeline', r'parseDoc_panic|renderDoc_panic|doc_render_total|spliceNode_panic|sourceposNode_total'), ('Block', r'progress|tokenize_spec|ruleAt'), ('Inline', r'progress|fuel|contracts'),)),
    'C02': P('C02', [('nest', 4500, 36000), ('block', 3000, 24000), ('inline', 2500, 20000), ('pipeline', 1500, 12000)], ('C02', 3000, 20000),
             "oracle: 16 nesting families x sizes up to the budget x max_nesting in {0,1,3,10,100}; recursion gauge (hook) and tree depth compared with 4*max_nesting+16; non-trivial = size >= 150",
             ["actual stack exhaustion is a runtime fact; the model bounds frames and depth, the oracle observes the gauge on a 3 GiB-stack thread"], extra_modules=('EmphDepth', 'EmphDepthDoc', 'C02Doc', 'GenC02',)),
    'C03': P('C03', [('render', 15000, 120000), ('noderender', 4000, 32000), ('pipeline', 1500, 12000), ('pipelineh', 1200, 9600)], ('C03', 20000, 160000),
             "render stream: escape_html inputs and random event scripts (hostile payloads, empty strings, NUL, LF-terminated texts before cr) replayed into the REAL HTMLRenderer in both modes; oracle: recogniser of the safe output language on rendered hostile/generated documents under html-free configurations; non-trivial = payload with & < or quote / script with cr and >= 3 events",
             ["attribute names pushed into node.attrs by plugins are &'static str; the theorems assume they are `data-sourcepos` (what the shipped sourcepos plugin pushes) - shown necessary by a witness"], extra_modules=(('Pipeline', r'doc_safe_output|doc_output_html_free|doc_output_renderable|final_hyps|parseDoc_final'), 'NodeRender', ('HrefConverse', r'tokens_of|doc_tokens_exact|doc_attrs_exact|doc_tag_pieces'), 'HrefNodup', ('PipelineH', r'raw|conservative'),)),
    'C04': P('C04', [('link', 15000, 120000), ('inline', 5000, 40000), ('htmldecode', 8000, 64000), ('pipeline', 1500, 12000)], ('C04', 30000, 240000),
             "oracle: scheme spellings (case, named/decimal/hex references, escapes, embedded controls, percent escapes) x 8 syntactic positions; every Link/Image/Autolink url and every rendered href/src is fed to a WHATWG-style scheme extractor",
             ["browser behaviour is modelled by WHATWG URL pre-processing (strip C0/space at the ends, drop TAB/LF/CR) + ASCII-case-insensitive scheme"], extra_modules=('GenC17', ('LinksDoc', r'doc_urls_safe|doc_href|doc_link_render|parseDoc_every_kind|parseBlocks_refs_good|reference_step|tokenize_refs'), ('Inline', r'pipeline|fromPipeline'), 'HtmlDecode', 'HrefConverse', 'HrefNodup')),
    'C05': P('C05', [('inlineops', 10000, 80000), ('block', 6000, 48000), ('inline', 5000, 40000), ('pipeline', 1500, 12000), ('pipetabs', 1500, 12000), ('pipelineh', 1200, 9600)], ('C05', 30000, 240000),
             "oracle: RangesOk on every parsed tree (root covers input, boundaries, nesting, sibling order, text/markup fidelity) for all generators x configurations with the paragraph rule; non-trivial = tree with more than 3 nodes",
             ["whole-tree induction is _partial (Layer 3); covered by the oracle"], extra_modules=(('InlineH', r'ranges|ordered'), ('PipelineH', r'range'), 'C05Tabs', 'C05Rest', 'C05Inline', 'C05Doc', ('Inline', r'ordered|translate'),)),
    'C06': P('C06', [('block', 6000, 48000), ('lines', 900, 7200)], ('C06', 15000, 120000),
             "oracle: both metamorphic relations on all tab-free spec inputs (with and without html) and generated/mutated tab-free documents; tree equality modulo the computed shift for the quote relation",
             ["list relation: every line (blank ones included) indented by the marker width, D contains a non-blank line"], extra_modules=('C06ListBlank', 'C06List', ('Block', r'bqScan|tableOk|tokenize_spec'),)),
    'C07': P('C07', [('pstate', 10000, 80000), ('pipeline', 1500, 12000)], ('C07', 7500, 60000),
             "oracle: histories of 2-9 documents (reference definitions then uses, unclosed code spans, emphasis lower-bound triggers, fences) on one parser, each compared with a fresh parser (tree with ranges, HTML, XHTML)",
             ["per-document state is local to one parse call: static scan of interior-mutable items"], extra_modules=(('Pipeline', r'doc_pure|doc_refs_local|inline_state_local|doc_deterministic'),)),
    'C08': P('C08', [('ruler', 10000, 80000), ('pstate', 10000, 80000)], ('C08', 15000, 120000),
             "ruler stream: add/alias/before/after/remove/contains/iter histories on one REAL Ruler (with its cache) vs the cache-free model; oracle: add/remove/parse histories over 8 rule kinds (custom block, inline with markers x ( e-acute +, core, shipped escape and hr) compared with the same history without intermediate parses",
             []),
    'C09': P('C09', [('ruler', 20000, 160000), ('pstate', 10000, 80000)], ('C09', 20000, 160000),
             "ruler stream: random rule sets (0-9 rules, aliases, absent marks, self references, duplicates, all priorities) -> order or panic class of the REAL Ruler vs Lean compile; oracle: independent greedy specification in Rust; non-trivial = at least two constraints",
             ["marks are modelled as Nat; HashMap/HashSet as lists observed through membership only"]),
    'C10': P('C10', [('lines', 900, 7200), ('block', 6000, 48000), ('pipeline', 1500, 12000), ('inline', 2500, 20000), ('blockh', 2500, 20000), ('pipelineh', 1200, 9600)], ('C10', 20000, 160000),
             "oracle: LF->CRLF, LF->CR and final-newline relations on the real crate for all generators x configuration sample incl. sourcepos",
             [], extra_modules=(('PipelineH', r'_cr$|_cr\b'), ('BlockH', r'parseBlocksH_cr|parseBlocksH_crlf|final_newline|parseBlocksH_rel'), ('TotalTabs', r'crlf_invariant|no_inline_panic'), 'DocTotal2', 'C10Sourcepos', ('DocTotal', r'invariant_full'), ('BlockTotal', r'parseBlocks_fuel|tokenize_nf|testRules_nf'), 'C10Doc', ('Pipeline', r'doc_line_ending_reduction|render_ranges_irrelevant|erase_joinNode|spliceNode_congr'),)),
    'C11': P('C11', [('codepair', 10000, 80000), ('lines', 600, 4800), ('block', 6000, 48000), ('pipeline', 1500, 12000)], ('C11', 20000, 160000),
             "oracle: payloads (fence look-alikes, entity/escape-like text, tabs, NUL, blank lines) x fenced/indented/span x nesting depth 0-3; node content and rendered <code> compared with the payload",
             ["span payloads: continuation lines do not start a block construct (block structure wins in CommonMark)"], extra_modules=('C11SpanCtx', 'C11SpanMulti', 'C11Span', 'C11Nested', ('C14Doc', r'doc_fence|doc_indented'), ('Block', r'verbatim'),)),
    'C12': P('C12', [('entity', 20000, 160000), ('pipeline', 1500, 12000), ('inline', 2500, 20000)], ('C12', 12500, 100000),
             "oracle: named references of the entities table (all in thorough), numeric references over boundary classes + random sample in 3 spellings, 32 escapes x 5 contexts; round trip on random printable strings",
             [], extra_modules=(('GenTranslated', r'is_valid_entity_code|valid_code'), 'C12Ctx', 'C12Doc',)),
    'C13': P('C13', [('refs', 12500, 100000), ('pipeline', 1500, 12000), ('block', 3000, 24000)], ('C13', 20000, 160000),
             "oracle: k definitions (case/whitespace/case-fold variants, in quotes and items, before/after the use) x 4 use forms; expected target = first definition of the same base label",
             ["U+0131 dotless i is additionally identified with i/I by lower-then-upper normalisation (documented, not tested as a non-match)"], extra_modules=('C13Doc', 'C13Trace', ('LinksDoc', r'reference_no_node|first_wins|parseBlocks_refs$|tokenize_refs|reference_step|doc_reference|spliceNode_spec'),)),
    'C14': P('C14', [('inlineops', 10000, 80000), ('block', 6000, 48000), ('inline', 5000, 40000), ('pipeline', 1500, 12000), ('pipetabs', 1000, 8000), ('pipelineh', 1200, 9600)], ('C14', 25000, 200000),
             "oracle: WF on every parsed tree for all generators x configurations containing the paragraph rule",
             [], extra_modules=(('PipelineH', r'wf|places|leaves|shapes'), ('C14Doc', r'doc_inline_leaves|doc_text_nf_nojoin|doc_tree_wf_full|not_wf_without_paraLast|tokenize_tight|parseBlocks_noAdjInl|shape_induction|parseInline_shapes'), ('Pipeline', r'doc_tree_wf|fragmentsJoin_nf|fragmentsJoin_mem|spliceList_kinds|spliceList_wf|spliceList_every|joinNode_wf_aux|joinNode_every|sourceposNode_wf|parseBlocks_wf|tokenize_wf|runChain_para|parseDoc_stages'), ('Block', r'list_shape'), ('Inline', r'no_placeholder|allNF'),)),
    'C15': P('C15', [('smap', 450, 3600), ('pipeline', 1500, 12000)], ('C15', 1500, 12000),
             "smap stream: texts with lines around the checkpoint spacing (14-18, 30-34, 47-49, 64-70 chars), multi-byte characters, CR/LF/CRLF runs; EVERY offset 0..len+2 of each text; oracle: the two counting functions in Rust",
             [], extra_modules=(('Pipeline', r'doc_sourcepos_spec|sourceposAttrs_eq|sourceposNode_total'),)),
    'C16': P('C16', [('codepair', 15000, 120000), ('block', 6000, 48000), ('inline', 5000, 40000), ('html', 6000, 48000), ('blockh', 2500, 20000), ('inlineh', 2500, 20000)], ('C16', 12500, 100000),
             "oracle: dual-run look-ahead probe (hook) over all generators x configurations (+ custom rules), HTML with probe on = HTML with probe off, custom block rule in both look-ahead styles after every predecessor kind",
             [], extra_modules=('C16Block', 'C16Doc', 'GenHtml', ('InlineH', r'silent|calm|window|ruleAtH_html'), ('BlockH', r'silent|true_real'), ('Html', r'silent'), ('Block', r'silent|testRules|real_false'), ('Inline', r'silent|skip|memo|ruleEmph'),)),
    'C17': P('C17', [('url', 20000, 160000)], ('C17', 20000, 160000),
             "url stream: byte strings biased to '%' near the end, hex/non-hex after '%', bytes >= 0x80, 8 safe-set families, both modes; non-trivial = contains a byte >= 0x80 or a '%' within the last three bytes; distinct by hash of the request line",
             ["bytes are modelled as Nat < 256 (hypothesis `Bytes bs`)",
              "AsciiSet is modelled as its 128-bit constant; `has` is only consulted for bytes < 128 (short-circuit in the Rust)"], extra_modules=('GenC17', ('GenTranslated', r'AsciiSet|has_'), 'C17Set',)),
    'C18': P('C18', [('alt', 12500, 100000), ('pipeline', 1500, 12000), ('noderender', 4000, 32000)], ('C18', 20000, 160000),
             "oracle: ![D](x) for generated inline descriptions; alt attribute vs plain-text display of the image node's own children",
             [], extra_modules=(('LinksDoc', r'doc_image_alt|doc_img_events'),)),
    'C19': P('C19', [('render', 15000, 120000), ('noderender', 4000, 32000), ('pipeline', 1500, 12000)], ('C19', 15000, 120000),
             "render stream as C03; noderender stream: events recorded from REAL trees by an independent Renderer vs the per-kind render model on the dumped tree, and real render()/xrender() vs serialize(render model); oracle: independent event-recording Renderer over real trees of all generators x configurations: render twice, tree unchanged, built-in output = reference serialisation of recorded events (HTML and XHTML), length difference = 2 x void elements",
             [], extra_modules=(('Pipeline', r'doc_render_total|doc_deterministic|doc_pure|render_ranges_irrelevant'), 'NodeRender',)),
    'C20': P('C20', [('eset', 15000, 120000), ('tree', 10000, 80000)], ('C20', 15000, 120000),
             "eset stream: op sequences (1-60 ops) over eight Rust types incl. zero-sized and same-layout types on the REAL ErasedSet vs model; tree stream: walk / walk_mut with a mutating callback on random trees; oracle: HashMap<TypeId,_> reference and manual stack pre-order",
             []),
}
