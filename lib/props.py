"""Per-property configuration of ./check: theorem registry, streams, oracle, trusted base."""

KERNEL = "Lean 4.33.0 kernel; axioms allowed: propext, Classical.choice, Quot.sound (audited by #print axioms on every registered theorem); no sorry/admit/native_decide/own axioms (source audit)"
MODEL = "hand-written Lean model of the anchored code (modelled, not verified); tied by the correspondence streams (differential testing, generator quality bounds what it sees) and by extract/extract.py for constants"
HARNESS = "extract/extract.py, the Rust harness (generators, canonical printers, oracles) and the orchestrator ./check"
LIBS = "rustc/std, regex, html_escape, entities, unicode-general-category assumed to meet their documented contracts"

PROPS = {
    'C17': dict(
        theorems=['encode_alphabet', 'encode_ascii'],
        examples=0,
        streams=[('url', 4000, 60000)],
        oracle=('C17', 4000, 80000),
        rule="url stream: byte strings biased to '%' near the end, hex/non-hex after '%', bytes >= 0x80, 8 safe-set families, both modes; non-trivial = contains a byte >= 0x80 or a '%' within the last three bytes; distinct by hash of the request line",
        trusted_base=[KERNEL, MODEL, HARNESS, LIBS],
        assumptions=["bytes are modelled as Nat < 256 (hypothesis `Bytes bs`)",
                     "AsciiSet is modelled as its 128-bit constant; `has` is only consulted for bytes < 128 (short-circuit in the Rust)"],
    ),
}
