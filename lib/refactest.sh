#!/bin/bash
# usage: lib/refactest.sh <ID> <n>  — applies a BEHAVIOUR-PRESERVING refactoring (/tmp/seed/<ID>-out/refactor<n>/patch.diff)
# in an isolated sandbox and runs every claimed quick check; every alarm is a false alarm to be examined.
set -u
P=$1; N=$2
SRC=/tmp/seed/$P-out/refactor$N
[ -d $SRC ] || SRC=/verif/refactors/$P-$N
DST=/verif/refactors/$P-$N
BOX=/tmp/refacbox-$P-$N
mkdir -p $DST
[ $SRC = $DST ] || { cp $SRC/patch.diff $DST/patch.diff; cp $SRC/notes.md $DST/notes.md 2>/dev/null; }
rm -rf $BOX; mkdir -p $BOX
git -C /repo worktree add -q --detach $BOX/repo HEAD
git -C /verif worktree add -q --detach $BOX/verif HEAD
sed -i "s#path = \"/repo\"#path = \"$BOX/repo\"#" $BOX/verif/harness/Cargo.toml
sed -i "s#/verif/harness/target#$BOX/verif/harness/target#" $BOX/verif/harness/.cargo/config.toml
mkdir -p $BOX/verif/lean/.lake && cp -r /verif/lean/.lake/build $BOX/verif/lean/.lake/build 2>/dev/null
cd $BOX/verif
if ! git -C $BOX/repo apply --check $DST/patch.diff 2>/dev/null; then echo "patch does not apply"; else
git -C $BOX/repo apply $DST/patch.diff
: > $DST/checks.log
for id in $(python3 -c "import json;print(' '.join(c['property_id'] for c in json.load(open('MANIFEST.json'))['checks']))"); do
  MDIT_REPO=$BOX/repo ./check $id --tier quick >> $DST/checks.log 2>&1
done
fi
grep -E "^(VIOLATION|BROKEN)" $DST/checks.log | cut -c1-300
echo "alarms: $(grep -c '^VIOLATION' $DST/checks.log) of $(grep -cE '^(VIOLATION|OK)' $DST/checks.log) checks"
cd /; git -C /repo worktree remove --force $BOX/repo; git -C /verif worktree remove --force $BOX/verif; rm -rf $BOX; git -C /repo worktree prune; git -C /verif worktree prune
