#!/bin/bash
# usage: lib/seedtest.sh <PROP> <n> [tier]   — confirm a seeded change and run the property's check against it
# inputs: /tmp/seed/<PROP>-out/change<n>/{patch.diff,demo*.rs,notes.md}; scratch worktree /tmp/seed/<PROP>
set -u
P=$1; N=$2; TIER=${3:-quick}
SRC=/tmp/seed/$P-out/change$N
WT=/tmp/seed/$P
DST=/verif/seeded/$P-$N
mkdir -p $DST
cp $SRC/patch.diff $DST/patch.diff
DEMO=$(ls $SRC/demo*.rs | head -1)
cp $DEMO $DST/$(basename $DEMO)
cp $SRC/notes.md $DST/notes.md 2>/dev/null
export CARGO_NET_OFFLINE=true
cd $WT && git checkout -q -- . && git clean -fdq
# demo passes without the change
cp $DEMO tests/seed_demo.rs
cargo test --offline --test seed_demo > $DST/demo_clean.log 2>&1; DEMO_CLEAN=$?
git apply $DST/patch.diff || { echo "patch does not apply in worktree"; exit 2; }
cargo test --offline --test seed_demo > $DST/demo_changed.log 2>&1; DEMO_CHANGED=$?
rm tests/seed_demo.rs
cargo test --workspace --no-fail-fast --offline > $DST/suite_changed.log 2>&1; SUITE=$?
git checkout -q -- . && git clean -fdq
echo "confirm: demo_clean_rc=$DEMO_CLEAN demo_changed_rc=$DEMO_CHANGED suite_changed_rc=$SUITE"
# run the check against /repo with the change applied
cd /verif
if ! git -C /repo apply --check $DST/patch.diff 2>/dev/null; then echo "patch does not apply to /repo HEAD"; CHECK_RC=-1; else
git -C /repo apply $DST/patch.diff
./check $P --tier $TIER > $DST/check_$TIER.log 2>&1; CHECK_RC=$?
git -C /repo checkout -- .
fi
grep -E "^(VIOLATION|KNOWN|OK|BROKEN)" $DST/check_$TIER.log | cut -c1-400
python3 - <<PY
import json,os
meta=dict(property="$P", change=$N, source="independent sub-agent given only the property text and a scratch worktree",
  demo_passes_without_change=($DEMO_CLEAN==0), demo_fails_with_change=($DEMO_CHANGED!=0), suite_passes_with_change=($SUITE==0),
  check_tier="$TIER", check_rc=$CHECK_RC, detected=($CHECK_RC==1),
  ran=["cargo test --offline --test seed_demo (clean / changed)", "cargo test --workspace --no-fail-fast --offline (changed)", "./check $P --tier $TIER with the patch applied to /repo, then git checkout -- ."])
p="$DST/meta.json"
old=json.load(open(p)) if os.path.exists(p) else {}
old.setdefault('runs',[]).append(meta)
old.update({k:v for k,v in meta.items() if k not in ('check_tier','check_rc','detected')})
old['detected_by_quick']=old.get('detected_by_quick') or ("$TIER"=="quick" and $CHECK_RC==1)
old['detected_by_thorough']=old.get('detected_by_thorough') or ("$TIER"=="thorough" and $CHECK_RC==1)
json.dump(old,open(p,'w'),indent=1)
PY
rm -rf /verif/replay
echo "done $P-$N tier=$TIER check_rc=$CHECK_RC"
