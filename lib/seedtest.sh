#!/bin/bash
# usage: lib/seedtest.sh <PROP> <n> [tier]
# Confirms a seeded change and runs the property's check against it — in an ISOLATED sandbox
# (/tmp/seedbox/{verif,repo} = copies of the committed /verif and of /repo HEAD), so that /repo itself is
# never modified and other work can go on.  Results are copied to /verif/seeded/<PROP>-<n>/.
# inputs: /tmp/seed/<PROP>-out/change<n>/{patch.diff,demo*.rs,notes.md}; scratch worktree /tmp/seed/<PROP>
set -u
# two tests of the same property share the scratch worktree /tmp/seed/<PROP>: serialise them
exec 9>/tmp/seed/$1.lock; flock 9
P=$1; N=$2; TIER=${3:-quick}
SRC=/tmp/seed/$P-out/change$N
[ -d $SRC ] && [ -z "${SEED_STORED:-}" ] || SRC=/verif/seeded/$P-$N
WT=/tmp/seed/$P
DST=/verif/seeded/$P-$N
BOX=/tmp/seedbox-$P-$N
mkdir -p $DST
[ $SRC = $DST ] || cp $SRC/patch.diff $DST/patch.diff
DEMO=$(ls $SRC/demo*.rs | head -1)
[ $SRC = $DST ] || cp $DEMO $DST/$(basename $DEMO)
[ $SRC = $DST ] || cp $SRC/notes.md $DST/notes.md 2>/dev/null
export CARGO_NET_OFFLINE=true
DEMO_CLEAN=-1; DEMO_CHANGED=-1; SUITE=-1
if [ -d $WT ]; then
  cd $WT && git checkout -q -- . && git clean -fdq
  cp $DST/$(basename $DEMO) tests/seed_demo.rs
  cargo test --offline --test seed_demo > $DST/demo_clean.log 2>&1; DEMO_CLEAN=$?
  git apply $DST/patch.diff || { echo "patch does not apply in worktree"; }
  cargo test --offline --test seed_demo > $DST/demo_changed.log 2>&1; DEMO_CHANGED=$?
  rm tests/seed_demo.rs
  cargo test --workspace --no-fail-fast --offline > $DST/suite_changed.log 2>&1; SUITE=$?
  git checkout -q -- . && git clean -fdq
  echo "confirm: demo_clean_rc=$DEMO_CLEAN demo_changed_rc=$DEMO_CHANGED suite_changed_rc=$SUITE"
fi
# sandbox: committed /verif + /repo HEAD, harness pointed at the sandbox repo
rm -rf $BOX; mkdir -p $BOX
git -C /repo worktree add -q --detach $BOX/repo HEAD
git -C /verif worktree add -q --detach $BOX/verif HEAD
sed -i "s#path = \"/repo\"#path = \"$BOX/repo\"#" $BOX/verif/harness/Cargo.toml
sed -i "s#/verif/harness/target#$BOX/verif/harness/target#" $BOX/verif/harness/.cargo/config.toml
# reuse compiled Lean objects (read-only copy) so the sandbox does not rebuild the proofs from scratch
mkdir -p $BOX/verif/lean/.lake && cp -r /verif/lean/.lake/build $BOX/verif/lean/.lake/build 2>/dev/null
cd $BOX/verif
if ! git -C $BOX/repo apply --check $DST/patch.diff 2>/dev/null; then echo "patch does not apply to /repo HEAD"; CHECK_RC=-1; else
git -C $BOX/repo apply $DST/patch.diff
MDIT_REPO=$BOX/repo ./check $P --tier $TIER > $DST/check_$TIER.log 2>&1; CHECK_RC=$?
fi
grep -E "^(VIOLATION|KNOWN|OK|BROKEN)" $DST/check_$TIER.log | cut -c1-400
for f in $DST/*.log; do tail -c 3000 $f > $f.tmp && mv $f.tmp $f; done
python3 - <<PY
import json,os
meta=dict(property="$P", change=$N, source="independent sub-agent given only the property text and a scratch worktree",
  demo_passes_without_change=($DEMO_CLEAN==0), demo_fails_with_change=($DEMO_CHANGED not in (0,-1)), suite_passes_with_change=($SUITE==0),
  check_tier="$TIER", check_rc=$CHECK_RC, detected=($CHECK_RC==1),
  ran=["cargo test --offline --test seed_demo (clean / changed)", "cargo test --workspace --no-fail-fast --offline (changed)", "./check $P --tier $TIER in a sandbox copy of /verif against a copy of /repo HEAD with the patch applied"])
p="$DST/meta.json"
old=json.load(open(p)) if os.path.exists(p) else {}
old.setdefault('runs',[]).append(meta)
keep={k:v for k,v in meta.items() if k not in ('check_tier','check_rc','detected')}
if $DEMO_CLEAN==-1: keep={k:v for k,v in keep.items() if not k.startswith('demo_') and not k.startswith('suite_')}
old.update(keep)
old['detected_by_quick']=bool(old.get('detected_by_quick') or ("$TIER"=="quick" and $CHECK_RC==1))
old['detected_by_thorough']=bool(old.get('detected_by_thorough') or ("$TIER"=="thorough" and $CHECK_RC==1))
json.dump(old,open(p,'w'),indent=1)
PY
cd /; git -C /repo worktree remove --force $BOX/repo; git -C /verif worktree remove --force $BOX/verif; rm -rf $BOX; git -C /repo worktree prune; git -C /verif worktree prune
echo "done $P-$N tier=$TIER check_rc=$CHECK_RC"
