#!/usr/bin/env python3
"""lib/integrate.py <DriverModule> <stream-word> <corr-mod>:<fn>[,<stream2>:<mod2>:<fn2>...] -- registers a finished slice:
   Main.lean / Driver.lean import + dispatch, corr/mod.rs registration."""
import sys, re, os
ROOT = os.path.dirname(os.path.dirname(os.path.abspath(__file__)))
drv, word = sys.argv[1], sys.argv[2]
streams = [x.split(':') for x in sys.argv[3].split(',')] if len(sys.argv) > 3 and sys.argv[3] else []
for f in ('lean/Main.lean', 'lean/Driver.lean'):
    p = os.path.join(ROOT, f); s = open(p).read()
    imp = 'import Driver.%s\n' % drv
    if imp not in s:
        idx = s.rfind('import Driver.')
        end = s.index('\n', idx) + 1
        s = s[:end] + imp + s[end:]
    if f.endswith('Main.lean'):
        line = '  | "%s" :: args => Driver.%s.handle args\n' % (word, drv)
        if line not in s:
            s = s.replace('  | _ => "bad-stream"\n', line + '  | _ => "bad-stream"\n')
    open(p, 'w').write(s)
p = os.path.join(ROOT, 'harness/src/corr/mod.rs'); s = open(p).read()
for st in streams:
    name, mod, fn = st
    if 'pub mod %s;' % mod not in s:
        s = s.replace('pub mod url;\n', 'pub mod url;\npub mod %s;\n' % mod)
    line = '        ("%s", %s::%s as StreamFn),\n' % (name, mod, fn)
    if line not in s:
        s = s.replace('        ("url", url::run as StreamFn),\n', '        ("url", url::run as StreamFn),\n' + line)
open(p, 'w').write(s)
print('integrated', drv, word, streams)
