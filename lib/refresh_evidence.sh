#!/bin/bash
# re-run every claimed check (quick tier, default seed) on the current tree so that the committed evidence
# files describe exactly what a fresh quick run produces
cd /verif
git -C /repo diff --quiet || { echo "/repo has uncommitted changes"; exit 1; }
# the setup command of MANIFEST.json builds the WHOLE library (every module listed in lean/MdIt.lean): run it first,
# so that a name clash between two theorem modules is seen here and not in a fresh sandbox
./check --setup > work/setup.log 2>&1 || { echo "SETUP FAILED (see work/setup.log)"; tail -5 work/setup.log; exit 1; }
for id in $(python3 -c "import json;print(' '.join(c['property_id'] for c in json.load(open('MANIFEST.json'))['checks']))"); do
  VERIF_SEED=1 VERIF_TIER=quick ./check $id --tier quick | tail -1
done
rm -rf replay
