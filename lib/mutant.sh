#!/bin/bash
# usage: lib/mutant.sh <name> <file-in-repo> <sed-expression> <prop>...   — a one-line mutation of /repo HEAD in an isolated
# sandbox (like lib/seedtest.sh), suite + the given quick checks; result lines go to stdout, logs to work/mutants/<name>/
set -u
NAME=$1; FILE=$2; EXPR=$3; shift 3
BOX=/tmp/mutbox-$NAME; OUT=/verif/work/mutants/$NAME
rm -rf $BOX; mkdir -p $BOX $OUT
git -C /repo worktree add -q --detach $BOX/repo HEAD
git -C /verif worktree add -q --detach $BOX/verif HEAD
sed -i "s#path = \"/repo\"#path = \"$BOX/repo\"#" $BOX/verif/harness/Cargo.toml
sed -i "s#/verif/harness/target#$BOX/verif/harness/target#" $BOX/verif/harness/.cargo/config.toml
mkdir -p $BOX/verif/lean/.lake && cp -r /verif/lean/.lake/build $BOX/verif/lean/.lake/build 2>/dev/null
sed -i "$EXPR" $BOX/repo/$FILE
git -C $BOX/repo diff > $OUT/patch.diff
[ -s $OUT/patch.diff ] || echo "MUTATION DID NOT CHANGE ANYTHING"
(cd $BOX/repo && CARGO_NET_OFFLINE=true cargo test --workspace --no-fail-fast --offline > $OUT/suite.log 2>&1; echo "mutant $NAME: suite rc=$?")
cd $BOX/verif
for p in "$@"; do MDIT_REPO=$BOX/repo ./check $p --tier quick > $OUT/check_$p.log 2>&1; echo "mutant $NAME: check $p rc=$? $(grep -E '^(VIOLATION|OK)' $OUT/check_$p.log | cut -c1-160)"; done
cd /; git -C /repo worktree remove --force $BOX/repo; git -C /verif worktree remove --force $BOX/verif; rm -rf $BOX; git -C /repo worktree prune; git -C /verif worktree prune
