"""Free-text parts of MANIFEST.json per property."""
PENDING = {}
TEXT = {
 'C17': dict(
   level="Machine-checked Lean 4 theorems about the executable model of mdurl::encode for ALL byte strings, ALL safe sets and both modes (alphabet / pure ASCII; see Props/C17.lean for the list actually proved), tied to the code by a differential correspondence stream on the real encode() and by regenerated constants; an implementation-side oracle searches for failing inputs.",
   ref='DESIGN.md §9 C17',
   note="Trusted: Lean kernel (+ propext, Classical.choice, Quot.sound), the hand-written model (validated by correspondence only), extractor, harness, ./check. Bytes modelled as Nat<256; AsciiSet as its u128 constant.",
   technique='Lean 4 proof over executable model + differential correspondence to the Rust code'),
}
