#!/usr/bin/env python3
"""Writes MANIFEST.json from lib/props.py (so the manifest never lags behind the registry)."""
import json, os, sys
ROOT = os.path.dirname(os.path.dirname(os.path.abspath(__file__)))
sys.path.insert(0, os.path.join(ROOT, 'lib'))
from props import PROPS
from manifest_text import TEXT, PENDING

ALL = ['C%02d' % i for i in range(1, 21)]
checks = []
for pid in ALL:
    if pid not in PROPS or pid not in TEXT or not PROPS[pid]['theorems']:
        continue
    t = TEXT[pid]
    checks.append(dict(
        property_id=pid,
        quick_cmd='./check %s --tier quick' % pid,
        thorough_cmd='./check %s --tier thorough' % pid,
        evidence_file='/verif/evidence/%s.json' % pid,
        replay_cmd_template='./check %s --replay {path}' % pid,
        engine='lean4-model+correspondence',
        level_claimed=dict(category='proof', text=t['level'], design_ref=t['ref']),
        level_note=t['note'],
        technique=t['technique'],
    ))
man = dict(
    version=1,
    setup_cmd='./check --setup',
    hooks=dict(
        guard='mdit_verif',
        enable='RUSTFLAGS="--cfg mdit_verif" (set by ./check when it builds the harness against /repo)',
        baseline_off_cmd='cd /repo && cargo test --workspace --no-fail-fast --offline',
        source_commits=json.load(open(os.path.join(ROOT, 'lib', 'hook_commits.json'))) if os.path.exists(os.path.join(ROOT, 'lib', 'hook_commits.json')) else [],
        add_only=True,
    ),
    engines=[dict(name='lean4-model+correspondence', path='/verif/lean + /verif/harness + /verif/check',
                  serves_properties=[c['property_id'] for c in checks],
                  kind_free_text='Lean 4 theorems about a hand-written executable model; model tied to /repo on every run by a Rust differential harness (line protocol to a compiled Lean driver) and a constant extractor; implementation-side oracles search for failing inputs')],
    checks=checks,
    notes='See DESIGN.md (status paragraph at the top, build log in section 14). Every check: extractor + translator (Gen/*.lean regenerated from /repo) -> lake build of the property theorems -> axiom/source audit -> statement snapshot -> harness rebuilt from /repo working tree -> correspondence -> oracle.',
    not_applicable=[dict(property_id=p, reason=PENDING.get(p, 'check not built yet in this revision of /verif (planned, see DESIGN.md section 9); not claimed until its theorems and correspondence exist')) for p in ALL if p not in [c['property_id'] for c in checks]],
)
json.dump(man, open(os.path.join(ROOT, 'MANIFEST.json'), 'w'), indent=1)
print('MANIFEST.json: %d checks, %d not claimed' % (len(checks), len(man['not_applicable'])))
