#!/usr/bin/env python3
"""Regenerates lean/props_registry.json (property -> registered theorem names) from MdIt/Audit/*.lean.
Run by hand when theorems are added; the file is committed, and ./check fails if a registered theorem
disappears from the audit output or its statement snapshot changes."""
import re, os, json, glob
ROOT = os.path.dirname(os.path.dirname(os.path.abspath(__file__)))
reg = {}
for f in sorted(glob.glob(os.path.join(ROOT, 'lean', 'MdIt', 'Audit', '*.lean'))):
    pid = os.path.basename(f)[:-5]
    src = re.sub(r'/-.*?-/', '', open(f).read(), flags=re.S)
    src = re.sub(r'--.*', '', src)
    reg[pid] = re.findall(r'#print axioms\s+(\S+)', src)
json.dump(reg, open(os.path.join(ROOT, 'lean', 'props_registry.json'), 'w'), indent=1)
print({k: len(v) for k, v in reg.items()})
